#!/bin/bash
# Nothing to build: the framework is pure Python run by /venv/bin/python with
# /verif/shims on PYTHONPATH; TLC models are checked at run time. Verify the
# interpreter and the subject import.
set -e
cd "$(dirname "$0")"
mkdir -p evidence replay
PYTHONPATH="$PWD:$PWD/shims" /venv/bin/python - <<'PY'
import sys
sys.path.insert(0, '/repo')
import flask, sqlalchemy, lxml
import mc.core, mc.explorer
print('setup ok')
PY
