"""Stand-in for netifaces: no interfaces."""
AF_INET = 2
def interfaces():
    return []
def ifaddresses(name):
    return {}
