"""Stand-in for sqlalchemy-jsonfield (not installable offline). Trusted base.

JSONField: a TypeDecorator over Text that json-dumps on the way in and
json-loads on the way out, which is what the real package does for SQLite.
"""
import json
from sqlalchemy import types


class JSONField(types.TypeDecorator):
    impl = types.Text
    cache_ok = True

    def __init__(self, enforce_string=False, enforce_unicode=False, json=json, json_type=None, **kwargs):
        self._json = json
        super().__init__(**kwargs)

    def process_bind_param(self, value, dialect):
        if value is None:
            return None
        return self._json.dumps(value)

    def process_result_value(self, value, dialect):
        if value is None or value == '':
            return None
        if isinstance(value, (bytes, bytearray)):
            value = value.decode('utf-8')
        return self._json.loads(value)
