"""Stand-in for Flask-Login (not installable offline). Trusted base.

Implements the documented semantics the application relies on:
  LoginManager(user_loader, anonymous_user, init_app), current_user proxy,
  login_user / logout_user storing the user id in the Flask session under
  '_user_id', UserMixin / AnonymousUserMixin.
"""
from flask import g, session, has_request_context
from werkzeug.local import LocalProxy


class UserMixin:
    @property
    def is_active(self):
        return True

    @property
    def is_authenticated(self):
        return self.is_active

    @property
    def is_anonymous(self):
        return False

    def get_id(self):
        return str(self.id)


class AnonymousUserMixin:
    @property
    def is_authenticated(self):
        return False

    @property
    def is_active(self):
        return False

    @property
    def is_anonymous(self):
        return True

    def get_id(self):
        return None


class LoginManager:
    def __init__(self, app=None):
        self.anonymous_user = AnonymousUserMixin
        self._user_callback = None
        if app is not None:
            self.init_app(app)

    def init_app(self, app, add_context_processor=True):
        app.login_manager = self
        if add_context_processor:
            # Flask-Login makes current_user available to every template
            app.context_processor(lambda: dict(current_user=_get_user()))

    def user_loader(self, callback):
        self._user_callback = callback
        return callback

    def _load_user(self):
        user = None
        uid = session.get('_user_id')
        if uid is not None and self._user_callback is not None:
            user = self._user_callback(uid)
        if user is None:
            user = self.anonymous_user()
        g._login_user = user
        return user


def _get_user():
    if not has_request_context():
        return None
    if '_login_user' not in g:
        from flask import current_app
        current_app.login_manager._load_user()
    return g._login_user


current_user = LocalProxy(_get_user)


def login_user(user, remember=False, duration=None, force=False, fresh=True):
    if not force and not user.is_active:
        return False
    session['_user_id'] = user.get_id()
    session['_fresh'] = fresh
    if remember:
        session['_remember'] = 'set'
    g._login_user = user
    return True


def logout_user():
    session.pop('_user_id', None)
    session.pop('_fresh', None)
    session.pop('_remember', None)
    from flask import current_app
    g._login_user = current_app.login_manager.anonymous_user()
    return True


def login_required(func):
    from functools import wraps
    from flask import abort

    @wraps(func)
    def inner(*args, **kwargs):
        if not current_user.is_authenticated:
            abort(401)
        return func(*args, **kwargs)
    return inner
