"""Stand-in for python-dotenv: load_dotenv is a no-op in the sandbox."""
def load_dotenv(*args, **kwargs):
    return False
