"""Independent DASH MPD reader written from ISO/IEC 23009-1.

BaseURL resolution at every level (5.6), SegmentTemplate inheritance
(5.3.9.1: Period < AdaptationSet < Representation), identifier substitution
(5.3.9.4.4, incl. %0Nd), SegmentTimeline expansion (5.3.9.6), SegmentList
ranges, and the segment availability window of 5.3.9.5.3 in exact Fractions.
Shares no code with dashlive.
"""
from __future__ import annotations

import datetime
import re
from fractions import Fraction
from urllib.parse import urljoin

from lxml import etree

from . import iso8601

NS = 'urn:mpeg:dash:schema:mpd:2011'
Q = '{%s}' % NS


class MpdError(Exception):
    pass


def strict_parse(body: bytes):
    parser = etree.XMLParser(recover=False, resolve_entities=False, no_network=True, remove_blank_text=False)
    return etree.fromstring(body, parser)


def dur(text):
    if text is None:
        return None
    secs, _ = iso8601.parse_duration(text)
    return secs


def dt(text):
    if text is None:
        return None
    v = iso8601.parse_datetime(text)
    if v.tzinfo is None:
        v = v.replace(tzinfo=datetime.timezone.utc)
    return v


def child(el, name):
    return el.find(Q + name)


def children(el, name):
    return el.findall(Q + name)


def text_of(el):
    return (el.text or '').strip() if el is not None else None


IDENT_RE = re.compile(r'\$(RepresentationID|Number|Time|Bandwidth|SubNumber)?(%0(\d+)d)?\$')


def substitute(template: str, rep_id: str, number=None, time=None, bandwidth=None) -> str:
    def repl(m):
        name, fmt, width = m.group(1), m.group(2), m.group(3)
        if name is None:
            if fmt:
                raise MpdError(f'bad identifier in {template!r}')
            return '$'
        if name == 'RepresentationID':
            if fmt:
                raise MpdError('format tag on $RepresentationID$')
            return rep_id
        val = {'Number': number, 'Time': time, 'Bandwidth': bandwidth}.get(name)
        if val is None:
            raise MpdError(f'${name}$ used but no value available in {template!r}')
        if width:
            return str(int(val)).zfill(int(width))
        return str(int(val))
    out = IDENT_RE.sub(repl, template)
    return out


def template_identifiers(template: str):
    """-> (list of identifier names used, list of stray '$' problems)"""
    names = []
    pos = 0
    problems = []
    while True:
        i = template.find('$', pos)
        if i < 0:
            break
        m = IDENT_RE.match(template, i)
        if not m:
            problems.append(template[i:i + 24])
            pos = i + 1
            continue
        names.append(m.group(1) or '$$')
        pos = m.end()
    return names, problems


class SegTemplate:
    ATTRS = ('media', 'initialization', 'timescale', 'duration', 'startNumber', 'presentationTimeOffset',
             'availabilityTimeOffset')

    def __init__(self):
        self.attrs = {}
        self.timeline = None     # list of (t, d) fully expanded, or None
        self.timeline_raw = None  # list of (t|None, d, r)

    def inherit(self, el):
        new = SegTemplate()
        new.attrs = dict(self.attrs)
        new.timeline = self.timeline
        new.timeline_raw = self.timeline_raw
        if el is not None:
            for a in self.ATTRS:
                if el.get(a) is not None:
                    new.attrs[a] = el.get(a)
            tl = child(el, 'SegmentTimeline')
            if tl is not None:
                raw = []
                for s in children(tl, 'S'):
                    t = s.get('t')
                    raw.append((None if t is None else int(t), int(s.get('d')), int(s.get('r', '0'))))
                new.timeline_raw = raw
                new.timeline = expand_timeline(raw)
        return new

    def geti(self, name, default=None):
        v = self.attrs.get(name)
        return default if v is None else int(v)


def expand_timeline(raw, limit=200000):
    out = []
    cur = 0
    for t, d, r in raw:
        if t is not None:
            cur = t
        if r < 0:
            raise MpdError('negative @r not supported by this reader')
        for _ in range(r + 1):
            out.append((cur, d))
            cur += d
            if len(out) > limit:
                raise MpdError('timeline too long')
    return out


class Rep:
    def __init__(self):
        self.id = None
        self.bandwidth = None
        self.base_url = None
        self.template: SegTemplate | None = None
        self.seglist = None     # dict(init=(a,b), media=[(a,b)], timescale, duration)
        self.content_type = None
        self.mime = None
        self.el = None
        self.adp_el = None
        self.period = None

    @property
    def timescale(self):
        return self.template.geti('timescale', 1) if self.template else 1

    def init_url(self):
        t = self.template.attrs.get('initialization') if self.template else None
        if t is None:
            return None
        return urljoin(self.base_url, substitute(t, self.id, bandwidth=self.bandwidth))

    def media_url(self, number=None, time=None):
        t = self.template.attrs.get('media')
        if t is None:
            return None
        return urljoin(self.base_url, substitute(t, self.id, number=number, time=time, bandwidth=self.bandwidth))

    def uses_time(self):
        t = self.template.attrs.get('media') if self.template else None
        return bool(t and '$Time' in t)

    def uses_number(self):
        t = self.template.attrs.get('media') if self.template else None
        return bool(t and '$Number' in t)


class Period:
    def __init__(self):
        self.id = None
        self.start = None
        self.duration = None
        self.reps: list[Rep] = []
        self.el = None
        self.adaptation_sets = []


class Mpd:
    def __init__(self, body: bytes, url: str):
        self.url = url
        self.root = strict_parse(body)
        r = self.root
        if r.tag != Q + 'MPD':
            raise MpdError(f'root element is {r.tag}')
        self.type = r.get('type', 'static')
        self.id = r.get('id')
        self.ast = dt(r.get('availabilityStartTime'))
        self.publish_time = dt(r.get('publishTime'))
        self.tsbd = dur(r.get('timeShiftBufferDepth'))
        self.mup = dur(r.get('minimumUpdatePeriod'))
        self.mpd_duration = dur(r.get('mediaPresentationDuration'))
        self.location = text_of(child(r, 'Location'))
        pl = child(r, 'PatchLocation')
        self.patch_location = text_of(pl)
        self.patch_ttl = None if pl is None else pl.get('ttl')
        base = url
        b = child(r, 'BaseURL')
        if b is not None:
            base = urljoin(base, text_of(b))
        self.periods: list[Period] = []
        prev_end = Fraction(0)
        for pe in children(r, 'Period'):
            p = Period()
            p.el = pe
            p.id = pe.get('id')
            p.start = dur(pe.get('start'))
            if p.start is None:
                p.start = prev_end if self.periods or self.type == 'static' else Fraction(0)
            p.duration = dur(pe.get('duration'))
            if p.duration is not None:
                prev_end = p.start + p.duration
            pbase = base
            b = child(pe, 'BaseURL')
            if b is not None:
                pbase = urljoin(pbase, text_of(b))
            ptempl = SegTemplate().inherit(child(pe, 'SegmentTemplate'))
            for ae in children(pe, 'AdaptationSet'):
                p.adaptation_sets.append(ae)
                abase = pbase
                b = child(ae, 'BaseURL')
                if b is not None:
                    abase = urljoin(abase, text_of(b))
                atempl = ptempl.inherit(child(ae, 'SegmentTemplate'))
                for re_ in children(ae, 'Representation'):
                    rep = Rep()
                    rep.el = re_
                    rep.adp_el = ae
                    rep.period = p
                    rep.id = re_.get('id')
                    rep.bandwidth = re_.get('bandwidth')
                    rep.content_type = ae.get('contentType') or (ae.get('mimeType') or re_.get('mimeType') or '').split('/')[0]
                    rep.mime = re_.get('mimeType') or ae.get('mimeType')
                    rbase = abase
                    b = child(re_, 'BaseURL')
                    if b is not None:
                        rbase = urljoin(rbase, text_of(b))
                    rep.base_url = rbase
                    st = child(re_, 'SegmentTemplate')
                    rep.template = atempl.inherit(st)
                    if not rep.template.attrs and rep.template.timeline is None:
                        rep.template = None
                    sl = child(re_, 'SegmentList')
                    if sl is None:
                        sl = child(ae, 'SegmentList')
                    if sl is not None:
                        init = child(sl, 'Initialization')
                        rng = lambda s: tuple(int(x) for x in s.split('-'))  # noqa: E731
                        rep.seglist = {
                            'timescale': int(sl.get('timescale', '1')),
                            'duration': None if sl.get('duration') is None else int(sl.get('duration')),
                            'init': None if init is None or init.get('range') is None else rng(init.get('range')),
                            'media': [rng(u.get('mediaRange')) for u in children(sl, 'SegmentURL')
                                      if u.get('mediaRange')],
                        }
                    p.reps.append(rep)
            self.periods.append(p)

    # -- availability (5.3.9.5.3) ------------------------------------------
    def live_segments(self, rep: Rep, now: datetime.datetime):
        """Segments the manifest makes addressable at `now` for a dynamic MPD.

        -> list of dict(kind='time'|'number', t, d, n, url)
        timeline: entries whose end is not later than now.
        number:   numbers whose availability window contains now.
        """
        if self.ast is None:
            raise MpdError('dynamic MPD without availabilityStartTime')
        T = Fraction(int((now - self.ast) / datetime.timedelta(microseconds=1)), 10 ** 6) - rep.period.start
        tmpl = rep.template
        ts = tmpl.geti('timescale', 1)
        pto = tmpl.geti('presentationTimeOffset', 0)
        start_number = tmpl.geti('startNumber', 1)
        out = []
        if tmpl.timeline is not None:
            for i, (t, d) in enumerate(tmpl.timeline):
                end = Fraction(t - pto + d, ts)
                if end <= T:
                    n = start_number + i
                    out.append({'kind': 'time' if rep.uses_time() else 'number', 't': t, 'd': d, 'n': n, 'idx': i,
                                'count': len(tmpl.timeline),
                                'url': rep.media_url(number=n, time=t)})
            return out
        d = tmpl.geti('duration')
        if d is None:
            return out
        # segment k (0-based) spans [k*d, (k+1)*d)/ts; available from its end until end + TSBD (+ d per 5.3.9.5.3)
        if T < 0:
            return out
        tsbd = self.tsbd
        k_max = (T * ts) // d - 1                     # last k with (k+1)*d/ts <= T
        if tsbd is None:
            k_min = 0
        else:
            # window end: (k+1)*d/ts + tsbd + d/ts  > T   (availability end is exclusive)
            x = (T - tsbd) * ts / d - 2
            k_min = int(x // 1) + 1
            if k_min < 0:
                k_min = 0
        k = int(k_min)
        while k <= k_max:
            n = start_number + k
            out.append({'kind': 'number', 't': k * d, 'd': d, 'n': n, 'idx': k - int(k_min),
                        'count': int(k_max - k_min + 1), 'url': rep.media_url(number=n, time=k * d)})
            k += 1
        return out

    def static_segments(self, rep: Rep):
        """Segments a static MPD enumerates for rep (5.3.9.5.3: numbers from the Period duration)."""
        tmpl = rep.template
        out = []
        if tmpl is None:
            return out
        ts = tmpl.geti('timescale', 1)
        start_number = tmpl.geti('startNumber', 1)
        if tmpl.timeline is not None:
            for i, (t, d) in enumerate(tmpl.timeline):
                n = start_number + i
                out.append({'kind': 'time' if rep.uses_time() else 'number', 't': t, 'd': d, 'n': n, 'idx': i,
                            'count': len(tmpl.timeline), 'url': rep.media_url(number=n, time=t)})
            return out
        d = tmpl.geti('duration')
        if d is None:
            return out
        pdur = rep.period.duration
        if pdur is None:
            pdur = self.mpd_duration - rep.period.start if self.mpd_duration is not None else None
        if pdur is None:
            raise MpdError('static MPD without a Period duration')
        x = pdur * ts / d
        count = int(x) if x.denominator == 1 else int(x) + 1
        for k in range(count):
            n = start_number + k
            out.append({'kind': 'number', 't': k * d, 'd': d, 'n': n, 'idx': k, 'count': count,
                        'url': rep.media_url(number=n, time=k * d)})
        return out

    def segments(self, rep: Rep, now=None):
        if self.type == 'dynamic':
            return self.live_segments(rep, now)
        return self.static_segments(rep)

    def all_reps(self):
        for p in self.periods:
            for r in p.reps:
                yield r


def split_url(url: str):
    """-> path?query relative to the host (what the test client wants)."""
    m = re.match(r'^https?://[^/]+(/.*)$', url)
    return m.group(1) if m else url
