"""Structural MPD rules written from ISO/IEC 23009-1 (5.3.1-5.3.9, Annex B schema
types) - the ones clients depend on. Independent of dashlive's validator.

check(root) -> list of (rule, element@attr, text)
"""
from __future__ import annotations

import re

from . import iso8601, mpd

NS = mpd.NS
Q = mpd.Q
PATCH_NS = 'urn:mpeg:dash:schema:mpd-patch:2020'

DURATION_ATTRS = {
    'MPD': ['mediaPresentationDuration', 'minimumUpdatePeriod', 'minBufferTime', 'timeShiftBufferDepth',
            'suggestedPresentationDelay', 'maxSegmentDuration', 'maxSubsegmentDuration'],
    'Period': ['start', 'duration'],
    'Range': ['starttime', 'duration'],
}
DATETIME_ATTRS = {'MPD': ['availabilityStartTime', 'availabilityEndTime', 'publishTime']}
UINT_ATTRS = {
    'SegmentTemplate': ['timescale', 'duration', 'startNumber', 'presentationTimeOffset', 'endNumber'],
    'SegmentList': ['timescale', 'duration', 'startNumber', 'presentationTimeOffset'],
    'SegmentBase': ['timescale', 'presentationTimeOffset'],
    'SegmentDurations': ['timescale'],
    'S': ['t', 'd', 'n', 'k'],
    'Representation': ['bandwidth', 'width', 'height', 'qualityRanking', 'startWithSAP', 'maximumSAPPeriod'],
    'AdaptationSet': ['id', 'group', 'minBandwidth', 'maxBandwidth', 'minWidth', 'maxWidth', 'minHeight', 'maxHeight',
                      'width', 'height', 'startWithSAP', 'subsegmentStartsWithSAP'],
    'ContentComponent': ['id'],
    'EventStream': ['timescale', 'presentationTimeOffset'],
    'InbandEventStream': ['timescale', 'presentationTimeOffset'],
    'Event': ['presentationTime', 'duration', 'id'],
    'SubRepresentation': ['level', 'bandwidth'],
}
SAP_ATTRS = {'startWithSAP', 'subsegmentStartsWithSAP'}
REQUIRED = {
    'MPD': ['profiles', 'minBufferTime'],
    'Representation': ['id', 'bandwidth'],
    'S': ['d'],
}
ALLOWED_IDENTIFIERS = {'RepresentationID', 'Number', 'Time', 'Bandwidth', '$$'}
FRAME_RATE = re.compile(r'^[0-9]+(/[1-9][0-9]*)?$')
RATIO = re.compile(r'^[0-9]+:[0-9]+$')


def local(el):
    t = el.tag
    if not isinstance(t, str):
        return None, None
    if t.startswith('{'):
        ns, name = t[1:].split('}')
        return ns, name
    return None, t


def where(el, attr=None):
    ns, name = local(el)
    return f'{name}@{attr}' if attr else name


def check(root):
    out = []

    def bad(rule, el, attr, text):
        out.append((rule, where(el, attr), text))
    ns, name = local(root)
    if name != 'MPD' or ns != NS:
        bad('root', root, None, f'root element is {root.tag}')
        return out
    mtype = root.get('type', 'static')
    if mtype not in ('static', 'dynamic'):
        bad('type', root, 'type', f'MPD@type={mtype!r}')
    for el in root.iter():
        ns, name = local(el)
        if ns != NS:
            continue
        for a in REQUIRED.get(name, ()):
            if el.get(a) is None:
                bad('required', el, a, f'{name}@{a} missing')
        for a in DURATION_ATTRS.get(name, ()):
            v = el.get(a)
            if v is not None:
                try:
                    secs, f = iso8601.parse_duration(v)
                    if secs < 0:
                        bad('negative-duration', el, a, f'{name}@{a}={v!r}')
                except iso8601.Lexical:
                    bad('lexical-duration', el, a, f'{name}@{a}={v!r} is not an xs:duration')
        for a in DATETIME_ATTRS.get(name, ()):
            v = el.get(a)
            if v is not None:
                try:
                    iso8601.parse_datetime(v)
                except iso8601.Lexical:
                    bad('lexical-datetime', el, a, f'{name}@{a}={v!r} is not an xs:dateTime')
        for a in UINT_ATTRS.get(name, ()):
            v = el.get(a)
            if v is not None:
                if not iso8601.is_unsigned(v):
                    bad('lexical-unsigned', el, a, f'{name}@{a}={v!r} is not an unsigned integer')
                elif a in SAP_ATTRS and not (0 <= int(v) <= 6):
                    bad('sap-range', el, a, f'{name}@{a}={v!r} outside 0..6')
        if name == 'S':
            r = el.get('r')
            if r is not None and not re.match(r'^-?[0-9]+$', r):
                bad('lexical-int', el, 'r', f'S@r={r!r}')
        if name in ('AdaptationSet', 'Representation'):
            for a in ('frameRate', 'maxFrameRate', 'minFrameRate'):
                v = el.get(a)
                if v is not None and not FRAME_RATE.match(v):
                    bad('lexical-framerate', el, a, f'{name}@{a}={v!r}')
            for a in ('par', 'sar'):
                v = el.get(a)
                if v is not None and not RATIO.match(v):
                    bad('lexical-ratio', el, a, f'{name}@{a}={v!r}')
        if name in ('SegmentTemplate',):
            for a in ('media', 'initialization', 'index', 'bitstreamSwitching'):
                v = el.get(a)
                if v is not None:
                    names, problems = mpd.template_identifiers(v)
                    for n in names:
                        if n not in ALLOWED_IDENTIFIERS:
                            bad('template-identifier', el, a, f'${n}$ in {v!r}')
                    for p in problems:
                        bad('template-identifier', el, a, f'stray "$" in {v!r} near {p!r}')
        if name == 'AdaptationSet':
            if not el.findall(Q + 'Representation'):
                bad('empty-adaptation-set', el, None, f'AdaptationSet (contentType={el.get("contentType")}, '
                    f'mimeType={el.get("mimeType")}) has no Representation')
        if name == 'PatchLocation':
            v = el.get('ttl')
            if v is not None and not re.match(r'^[0-9]+(\.[0-9]+)?$', v):
                bad('lexical-double', el, 'ttl', f'PatchLocation@ttl={v!r}')
    if mtype == 'dynamic':
        for a in ('availabilityStartTime', 'publishTime'):
            if root.get(a) is None:
                bad('required-dynamic', root, a, f'MPD@{a} missing in a dynamic MPD')
    else:
        periods = root.findall(Q + 'Period')
        if root.get('mediaPresentationDuration') is None and not (periods and periods[-1].get('duration')):
            bad('required-static', root, 'mediaPresentationDuration',
                'static MPD with neither mediaPresentationDuration nor a duration on the last Period')
    # id uniqueness
    pids = [p.get('id') for p in root.findall(Q + 'Period') if p.get('id') is not None]
    if len(pids) != len(set(pids)):
        bad('duplicate-id', root, 'Period/@id', f'Period ids {pids}')
    for p in root.findall(Q + 'Period'):
        aids = [a.get('id') for a in p.findall(Q + 'AdaptationSet') if a.get('id') is not None]
        if len(aids) != len(set(aids)):
            bad('duplicate-id', p, 'AdaptationSet/@id', f'AdaptationSet ids {aids} in Period {p.get("id")}')
        rids = [r.get('id') for a in p.findall(Q + 'AdaptationSet') for r in a.findall(Q + 'Representation')
                if r.get('id') is not None]
        if len(rids) != len(set(rids)):
            bad('duplicate-id', p, 'Representation/@id', f'Representation ids {rids} in Period {p.get("id")}')
        for r in rids:
            if re.search(r'\s', r):
                bad('representation-id-whitespace', p, 'Representation/@id', f'{r!r}')
    return out


def check_patch(root):
    out = []
    ns, name = local(root)
    if name != 'Patch' or ns != PATCH_NS:
        out.append(('root', 'Patch', f'root element is {root.tag}'))
        return out
    for a in ('mpdId', 'originalPublishTime', 'publishTime'):
        if root.get(a) is None:
            out.append(('required', f'Patch@{a}', 'missing'))
    for a in ('originalPublishTime', 'publishTime'):
        v = root.get(a)
        if v is not None:
            try:
                iso8601.parse_datetime(v)
            except iso8601.Lexical:
                out.append(('lexical-datetime', f'Patch@{a}', f'{v!r}'))
    for el in root:
        ns, name = local(el)
        if ns == PATCH_NS and name in ('replace', 'add', 'remove') and el.get('sel') is None:
            out.append(('required', f'{name}@sel', 'missing'))
    # embedded MPD fragments obey the MPD lexical rules
    for el in root.iter():
        ns, name = local(el)
        if name == 'S':
            for a in ('t', 'd'):
                v = el.get(a)
                if v is not None and not iso8601.is_unsigned(v):
                    out.append(('lexical-unsigned', f'S@{a}', f'{v!r}'))
    return out


def skeleton(el):
    """Element / attribute-name tree (values and text dropped)."""
    kids = [skeleton(c) for c in el if isinstance(c.tag, str)]
    return (el.tag, tuple(sorted(el.attrib.keys())), tuple(kids))
