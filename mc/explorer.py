"""Explicit-state search engines used by the property checks.

bfs_histories: a state is *the operation history that reaches it*; the real
object is rebuilt and the history replayed for every expansion (live objects
rarely copy, and a replay is the cheapest exact snapshot for microsecond
operations). De-duplication is on a canonical key supplied by the caller.
Level-synchronous, so the first counterexample is a shortest one.
"""
from __future__ import annotations

from collections import deque


def bfs_histories(build, ops_of, step, canon, max_depth, on_state=None, max_states=None):
    """Generic BFS.

    build()            -> fresh (impl, model) pair
    ops_of(pair)       -> list of operations enabled in that state
    step(pair, op)     -> None if the step agrees with the model, else a
                          violation description (string); must mutate pair
    canon(pair)        -> hashable canonical state
    Returns dict(states, transitions, depth_completed, violations=[(hist, op, what)],
                 capped: bool)
    """
    pair = build()
    seen = {canon(pair)}
    frontier = deque([()])
    transitions = 0
    violations = []
    depth_completed = 0
    capped = False
    if on_state:
        on_state(pair, ())
    while frontier:
        hist = frontier.popleft()
        if len(hist) >= max_depth:
            continue
        base = build()
        for op in hist:
            step(base, op)
        for op in ops_of(base):
            pair = build()
            for h in hist:
                step(pair, h)
            what = step(pair, op)
            transitions += 1
            if what is not None:
                violations.append((hist, op, what))
                continue        # do not explore beyond a violating step
            k = canon(pair)
            if k in seen:
                continue
            if max_states is not None and len(seen) >= max_states:
                capped = True
                continue
            seen.add(k)
            if on_state:
                on_state(pair, hist + (op,))
            frontier.append(hist + (op,))
        depth_completed = max(depth_completed, len(hist) + 1)
    return dict(states=len(seen), transitions=transitions,
                depth_completed=depth_completed, violations=violations,
                capped=capped, state_keys=seen)


def deviation_vectors(defaults: dict, alphabets: dict, level: int, groups=None):
    """All vectors that differ from `defaults` in exactly `level` coordinates.

    groups: optional list of coordinate-name sets; at level >= 2 only subsets
    that lie inside one group are taken.
    Yields dicts containing only the deviating coordinates.
    """
    import itertools
    names = sorted(alphabets)
    if level == 0:
        yield {}
        return
    for combo in itertools.combinations(names, level):
        if level >= 2 and groups is not None:
            if not any(set(combo) <= set(g) for g in groups):
                continue
        choices = []
        for n in combo:
            vals = [v for v in alphabets[n] if v != defaults.get(n)]
            choices.append(vals)
        for vals in itertools.product(*choices):
            yield dict(zip(combo, vals))
