"""Management-surface helpers shared by C15, C16 and C17: a private writable world
with only synthetic media, role clients, token harvesting, store digests and the
catalogue of mutating request templates (DESIGN Appendix A).
"""
from __future__ import annotations

import copy
import hashlib
import html
import io
import json
import os
import re
from pathlib import Path
from urllib.parse import quote, unquote

from . import core, synth, world as W

ROLES = ('anonymous', 'user', 'media', 'admin')
MEDIA_TABLES = {'Stream', 'media_file', 'Blob', 'key', 'mediafile_keys', 'media_file_error',
                'mp_stream', 'period', 'adaptation_set'}


def build_world():
    """A world whose blob folder contains only files written by us (no symlinks into the repository)."""
    w = W.World.shared(streams=('synirr', 'synenc'), mps=False)
    if not getattr(w, '_mgmt_ready', False):
        with w.appctx():
            w.add_mps('mpsa', [dict(pid='p1', stream='synirr', start=0, duration=5, tracks=[('video', 1), ('audio', 2)]),
                               dict(pid='p2', stream='synenc', start=2, duration=5, tracks=[('video', 1)])])
            w.models.db.session.remove()
        w.base_snapshot = w.snapshot()
        w._mgmt_ready = True
    return w


class RoleClient:
    def __init__(self, w, role):
        self.w = w
        self.role = role
        self.client = w.app.test_client()
        self.access = None
        self.refresh = None
        self.tokens: list[tuple[str, str]] = []     # (label, token)
        self.user_pk = None

    def login(self):
        if self.role == 'anonymous':
            r = self.w.request('GET', '/api/refresh/access', client=self.client)
            if r.status == 200:
                js = r.json()
                self.access = (js.get('accessToken') or {}).get('jwt')
                self._collect_json(js, 'refresh-access')
            return
        c, js = self.w.login(self.role, self.client)
        if not js or not js.get('success'):
            raise core.HarnessError(f'login as {self.role} failed: {js}')
        self.access = js['accessToken']['jwt']
        self.refresh = js['refreshToken']['jwt']
        self.user_pk = js['user']['pk']
        self._collect_json(js, 'login')

    def bearer(self):
        return {'Authorization': f'Bearer {self.access}'} if self.access else {}

    def _add(self, label, tok):
        if tok and isinstance(tok, str) and (label, tok) not in self.tokens:
            self.tokens.append((label, tok))

    def _collect_json(self, js, where):
        def walk(x, key=None):
            if isinstance(x, dict):
                for k, v in x.items():
                    walk(v, k)
            elif isinstance(x, list):
                for v in x:
                    walk(v, key)
            elif isinstance(x, str) and key is not None:
                lk = key.lower()
                if lk in ('csrf_token', 'csrftoken', 'csrf'):
                    self._add(where, x)
                elif lk in ('files', 'kids', 'streams', 'upload', 'stream') and len(x) > 20 and '%' in x:
                    self._add({'kids': 'keys'}.get(lk, lk), x)
        walk(js)

    def harvest(self, urls):
        """GET every URL as ajax and as HTML, with and without the bearer token; collect CSRF tokens."""
        for label, url in urls:
            for hdrs in ({}, self.bearer()):
                for ajax in (False, True):
                    u = url + (('&' if '?' in url else '?') + 'ajax=1' if ajax else '')
                    r = self.w.request('GET', u, client=self.client, headers=hdrs or None)
                    if r.status != 200:
                        continue
                    body = r.text
                    try:
                        self._collect_json(json.loads(body), label)
                        continue
                    except Exception:
                        pass
                    for m in re.finditer(r'name="csrf_token"[^>]*value="([^"]+)"|value="([^"]+)"[^>]*name="csrf_token"', body):
                        self._add(label, html.unescape(m.group(1) or m.group(2)))
                    for m in re.finditer(r'csrf_token=([^"&\s]+)', body):
                        self._add(label, html.unescape(m.group(1)))

    def cookies_snapshot(self):
        return copy.deepcopy(self.client._cookies)

    def cookies_restore(self, snap):
        self.client._cookies = copy.deepcopy(snap)


def ids(w):
    """Primary keys / names of existing objects used to instantiate URLs."""
    m = w.models
    with w.appctx():
        streams = {s.directory: s.pk for s in m.Stream.all()}
        files = {mf.name: (mf.pk, mf.stream_pk) for mf in m.MediaFile.all()}
        keys = {k.hkid: k.pk for k in m.Key.all()}
        users = {u.username: u.pk for u in m.User.all()}
        mps = {x.name: x.pk for x in m.MultiPeriodStream.get_all()}
        periods = [(p.pk, p.parent.name) for p in m.Period.get_all()] if hasattr(m.Period, 'get_all') else []
        m.db.session.remove()
    return dict(streams=streams, files=files, keys=keys, users=users, mps=mps, periods=periods)


def harvest_urls(I):
    spk = I['streams']['synirr']
    mfid = I['files']['synirr_v1'][0]
    kpk = next(iter(I['keys'].values()))
    return [
        ('streams', '/streams'), ('streams', f'/stream/{spk}'), ('streams', f'/stream/{spk}/defaults'),
        ('streams', '/streams/add'), ('streams', f'/stream/{spk}/delete'),
        ('files', f'/stream/{spk}/{mfid}/edit'), ('files', f'/stream/{spk}/{mfid}/delete'),
        ('files', f'/stream/{spk}/{mfid}'),
        ('keys', '/key'), ('keys', f'/key/{kpk}'), ('keys', f'/key/{kpk}/delete'),
        ('refresh-csrf', '/api/refresh/csrf'), ('refresh-access', '/api/refresh/access'),
        ('streams', '/api/multi-period-streams/mpsa'),
    ]


# ---------------------------------------------------------------------------
def table_rows(w):
    """-> {table: {rowkey: rowhash}} for every table except Token."""
    out = {}
    with w.appctx():
        raw = w.models.db.engine.raw_connection()
        cur = raw.driver_connection.cursor()
        cur.execute("select name from sqlite_master where type='table' and name not like 'sqlite_%'")
        tables = [r[0] for r in cur.fetchall()]
        for t in tables:
            if t.lower() in ('token', 'alembic_version'):
                continue
            cur.execute(f'select * from "{t}"')
            cols = [d[0] for d in cur.description]
            rows = {}
            for row in cur.fetchall():
                key = row[cols.index('pk')] if 'pk' in cols else repr(row)
                rows[key] = hashlib.blake2b(repr(row).encode(), digest_size=8).hexdigest()
            out[t] = rows
            if t == 'User' and 'groups_mask' in cols:
                # what a user may do is a column of its row: kept as a pseudo-table of its own, so that a change of
                # privileges is told apart from a change of e-mail address or password
                out['User.privileges'] = {row[cols.index('pk')]: (row[cols.index('groups_mask')], row[cols.index('username')])
                                          for row in cur.execute('select * from "User"').fetchall()}
        cur.close()
        w.models.db.session.remove()
    return out


def blob_listing(w):
    out = {}
    for root, dirs, files in os.walk(w.blob_folder):
        for f in files:
            p = Path(root) / f
            out[str(p.relative_to(w.blob_folder))] = hashlib.blake2b(p.read_bytes(), digest_size=8).hexdigest()
        for d in dirs:
            out[str((Path(root) / d).relative_to(w.blob_folder)) + '/'] = ''
    return out


def store_state(w):
    return {'tables': table_rows(w), 'blobs': blob_listing(w)}


def diff_state(a, b):
    """-> {table: set(changed row keys)}; 'blobs' pseudo-table for the blob tree."""
    out = {}
    for t in set(a['tables']) | set(b['tables']):
        ra, rb = a['tables'].get(t, {}), b['tables'].get(t, {})
        ch = {k for k in set(ra) | set(rb) if ra.get(k) != rb.get(k)}
        if ch:
            out[t] = ch
    ch = {k for k in set(a['blobs']) | set(b['blobs']) if a['blobs'].get(k) != b['blobs'].get(k)}
    if ch:
        out['blobs'] = ch
    return out


# ---------------------------------------------------------------------------
# mutating request templates (operations an authorised user performs). {T} is replaced by the CSRF token.
def templates(I):
    spk = I['streams']['synirr']
    spk2 = I['streams']['synenc']
    mfid, _ = I['files']['synirr_a1']
    kpk = next(iter(I['keys'].values()))
    upk_user = I['users']['user']
    newfile = synth.make_file(kind='video', timescale=1000, durations=(1000, 1000, 1000), file_id=77)
    T = []

    def add(name, method, url, enc='query', body=None, files=None, ajax=True):
        T.append(dict(name=name, method=method, url=url, enc=enc, body=body or {}, files=files, ajax=ajax))
    add('create stream (json)', 'PUT', '/streams/add', 'json', {'title': 'new one', 'directory': 'newdir', 'csrf_token': '{T}'})
    add('create stream (form)', 'POST', '/streams/add', 'form', {'title': 'new two', 'directory': 'newdir2', 'csrf_token': '{T}'}, ajax=False)
    add('edit stream (json)', 'POST', f'/stream/{spk}', 'json',
        {'title': 'renamed', 'directory': 'synirr', 'marlin_la_url': '', 'playready_la_url': 'https://x/y',
         'timing_ref': 'synirr_a1', 'csrf_token': '{T}'})
    add('edit stream (form)', 'POST', f'/stream/{spk}', 'form',
        {'title': 'renamed2', 'directory': 'synirr', 'marlin_la_url': 'ms3://a', 'playready_la_url': '',
         'timing_ref': '', 'csrf_token': '{T}'}, ajax=False)
    add('stream defaults', 'POST', f'/stream/{spk}/defaults', 'form',
        {'csrf_token': '{T}', 'depth': '30', 'events': 'ping'}, ajax=False)
    add('delete stream (DELETE ajax)', 'DELETE', f'/stream/{spk}', 'query', {'csrf_token': '{T}'})
    add('delete stream (POST form)', 'POST', f'/stream/{spk2}/delete', 'form', {'csrf_token': '{T}'}, ajax=False)
    add('delete stream (DELETE /delete)', 'DELETE', f'/stream/{spk2}/delete', 'query', {'csrf_token': '{T}'})
    add('upload', 'POST', f'/media/{spk}/blob', 'multipart', {'csrf_token': '{T}', 'ajax': '1'},
        files={'file': ('upl_v9.mp4', newfile, 'video/mp4')})
    add('index file', 'GET', f'/media/index/{mfid}', 'query', {'csrf_token': '{T}'})
    add('edit media', 'POST', f'/stream/{spk}/{mfid}/edit', 'form', {'track_id': '5', 'lang': 'fra', 'csrf_token': '{T}'}, ajax=False)
    add('delete media (DELETE)', 'DELETE', f'/stream/{spk}/{mfid}', 'query', {'csrf_token': '{T}'})
    add('delete media (POST form)', 'POST', f'/stream/{spk}/{mfid}/delete', 'form', {'csrf_token': '{T}'}, ajax=False)
    add('delete media (DELETE /delete)', 'DELETE', f'/stream/{spk}/{mfid}/delete', 'query', {'csrf_token': '{T}'})
    add('add key (PUT computed)', 'PUT', '/key', 'query', {'kid': '0f0e0d0c0b0a09080706050403020100', 'csrf_token': '{T}'})
    add('add key (PUT explicit)', 'PUT', '/key', 'query', {'kid': '1f0e0d0c0b0a09080706050403020100',
                                                            'key': '00000000000000000000000000000001', 'csrf_token': '{T}'})
    add('add key (POST form)', 'POST', '/key', 'form', {'hkid': '2f0e0d0c0b0a09080706050403020100',
                                                         'hkey': '00000000000000000000000000000002', 'new_key': '1',
                                                         'csrf_token': '{T}'}, ajax=False)
    add('edit key', 'POST', f'/key/{kpk}', 'form', {'hkey': '00000000000000000000000000000003', 'new_key': '0',
                                                     'csrf_token': '{T}'}, ajax=False)
    add('delete key (DELETE)', 'DELETE', f'/key/{kpk}/delete', 'query', {'csrf_token': '{T}'})
    add('delete key (POST form)', 'POST', f'/key/{kpk}/delete', 'form', {'csrf_token': '{T}'}, ajax=False)
    mps_body = {'pk': None, 'name': 'mpsnew', 'title': 'new mps', 'options': None, 'csrf_token': '{T}',
                'periods': [{'pk': None, 'pid': 'a1', 'ordering': 1, 'stream': spk, 'start': 'PT0S', 'duration': 'PT4S',
                             'tracks': [{'track_id': 1, 'role': 'main', 'lang': 'und', 'encrypted': False}]}]}
    add('create mps', 'PUT', '/api/multi-period-streams/.add', 'json', mps_body)
    edit_body = dict(mps_body, pk=I['mps']['mpsa'], name='mpsa', title='changed title', periods=[])
    add('edit mps', 'POST', '/api/multi-period-streams/mpsa', 'json', edit_body)
    add('delete mps', 'DELETE', '/api/multi-period-streams/mpsa', 'query', {'csrf_token': '{T}'})
    add('add user', 'PUT', '/api/users', 'json', {'username': 'eve', 'email': 'eve@x.test', 'password': 'pw', 'confirmPassword': 'pw',
                                                  'mediaGroup': True, 'adminGroup': True, 'mustChange': False,
                                                  'csrf_token': '{T}'})
    add('edit other user', 'POST', f'/api/users/{upk_user}', 'json',
        {'username': 'user', 'email': 'changed@x.test', 'password': 'np', 'confirmPassword': 'np', 'mustChange': False,
         'adminGroup': True, 'mediaGroup': True, 'userGroup': True, 'csrf_token': '{T}'})
    add('edit own user', 'POST', '/api/users/{SELF}', 'json',
        {'username': '{SELFNAME}', 'email': 'mine@x.test', 'password': '', 'confirmPassword': '', 'mustChange': False,
         'adminGroup': True, 'mediaGroup': True, 'userGroup': True, 'csrf_token': '{T}'})
    add('delete user', 'DELETE', f'/api/users/{upk_user}', 'query', {'csrf_token': '{T}'})
    return T


def issue(w, rc: RoleClient, t, token, bearer=True, I=None):
    """Issue template t as role client rc with the given CSRF token (or None)."""
    def sub(x):
        if isinstance(x, str):
            x = x.replace('{T}', token if token is not None else '')
            if rc.user_pk is not None:
                x = x.replace('{SELF}', str(rc.user_pk)).replace('{SELFNAME}', W.USERS.get(rc.role, ('',))[0])
            else:
                x = x.replace('{SELF}', '0').replace('{SELFNAME}', 'nobody')
            return x
        if isinstance(x, dict):
            return {k: sub(v) for k, v in x.items() if not (token is None and k == 'csrf_token')}
        if isinstance(x, list):
            return [sub(v) for v in x]
        return x
    url = sub(t['url'])
    body = sub(t['body'])
    headers = dict(rc.bearer()) if bearer else {}
    kw = {}
    if t['ajax']:
        url += ('&' if '?' in url else '?') + 'ajax=1'
    if t['enc'] == 'query':
        if body:
            from urllib.parse import urlencode
            url += ('&' if '?' in url else '?') + urlencode(body, quote_via=quote, safe='%')
    elif t['enc'] == 'json':
        kw['json_body'] = body
    elif t['enc'] == 'form':
        kw['data'] = body
    elif t['enc'] == 'multipart':
        data = dict(body)
        for k, (fn, content, mime) in (t['files'] or {}).items():
            data[k] = (io.BytesIO(content), fn, mime)
        kw['data'] = data
        kw['content_type'] = 'multipart/form-data'
    return w.request(t['method'], url, headers=headers or None, client=rc.client, **kw)


def allowed_change(role, rc: RoleClient, diff):
    """Is this store difference within what the documentation grants the role?"""
    if role == 'admin':
        return True
    for table, rows in diff.items():
        if table == 'User':
            if role in ('user', 'media') and rows <= {rc.user_pk}:
                continue
            return False
        if role == 'media' and (table in MEDIA_TABLES or table == 'blobs'):
            continue
        return False
    return True
