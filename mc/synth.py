"""Independent, struct-only writer of small fragmented MP4 files.

The moov is borrowed from a fixture init segment and patched at byte offsets
located with mc.bmff (timescale, track id, IV size); everything else - styp,
sidx, moof (mfhd, traf: tfhd, tfdt, saiz, saio, senc, trun), mdat - is written
here from ISO/IEC 14496-12 / 23001-7. mdat payload bytes encode (file id,
segment index, offset) so that payload identity cannot hold by accident.
"""
from __future__ import annotations

import struct
from functools import lru_cache

from . import bmff
from .world import FIXTURES


def box(btype: bytes, body: bytes) -> bytes:
    return struct.pack('>I4s', 8 + len(body), btype) + body


def fullbox(btype: bytes, version: int, flags: int, body: bytes) -> bytes:
    return box(btype, struct.pack('>I', (version << 24) | flags) + body)


@lru_cache(maxsize=None)
def _fixture_init(name: str) -> bytes:
    data = (FIXTURES / 'bbb' / name).read_bytes()
    root = bmff.parse(data)
    end = root.find('moov').end
    return data[:end]


def patched_init(kind='video', encrypted=False, timescale=1000, track_id=1, iv_size=8, trex_duration=None, kid=None) -> bytes:
    src = {('video', False): 'bbb_v7.mp4', ('video', True): 'bbb_v7_enc.mp4',
           ('audio', False): 'bbb_a1.mp4', ('audio', True): 'bbb_a1_enc.mp4'}[(kind, encrypted)]
    data = bytearray(_fixture_init(src))
    root = bmff.parse(bytes(data))
    moov = root.find('moov')
    mdhd = moov.find('trak', 'mdia', 'mdhd')
    assert bmff.fullbox(mdhd)[0] == 0
    struct.pack_into('>I', data, mdhd.start + 20, timescale)
    tkhd = moov.find('trak', 'tkhd')
    assert bmff.fullbox(tkhd)[0] == 0
    struct.pack_into('>I', data, tkhd.start + 20, track_id)
    trex = moov.find('mvex', 'trex')
    struct.pack_into('>I', data, trex.start + 12, track_id)
    if trex_duration is not None:
        # trex: header 8, version/flags 4, track_ID 4, default_sample_description_index 4, default_sample_duration 4
        struct.pack_into('>I', data, trex.start + 20, trex_duration)
    if encrypted:
        for b in moov.walk():
            if b.type == b'tenc':
                data[b.start + 8 + 4 + 3] = iv_size
                if kid is not None:
                    data[b.start + 16:b.start + 32] = kid
    return bytes(data)


def payload_bytes(file_id: int, seg: int, n: int) -> bytes:
    out = bytearray(n)
    for i in range(n):
        out[i] = (file_id * 131 + seg * 31 + i * 7 + (i >> 8)) & 0xFF
    return bytes(out)


def make_fragment(seq, track_id, decode_time, sample_durs, sample_sizes, payload, *, file_offset,
                  tfdt='v1', base='moof', styp=False, sidx=False, timescale=1000,
                  encrypted=False, iv_size=8, subsamples=False, emsg=None, per_sample_saiz=False,
                  moof_pssh=None, dur_from='trun', free_pad=0, mdat64=False):
    """-> bytes of [styp][sidx][emsg] moof mdat, laid out for absolute position file_offset."""
    pre = b''
    if styp:
        pre += box(b'styp', b'msdh' + struct.pack('>I', 0) + b'msdhmsix')
    n = len(sample_durs)
    assert sum(sample_sizes) == len(payload)
    mfhd = fullbox(b'mfhd', 0, 0, struct.pack('>I', seq))
    tfdt_box = b''
    if tfdt == 'v1':
        tfdt_box = fullbox(b'tfdt', 1, 0, struct.pack('>Q', decode_time))
    elif tfdt == 'v0':
        tfdt_box = fullbox(b'tfdt', 0, 0, struct.pack('>I', decode_time))
    enc_boxes = b''
    senc_rel_first = None
    if encrypted:
        entries = b''
        sizes = []
        for i in range(n):
            iv = bytes(((seq * 17 + i * 3 + j) & 0xFF) for j in range(iv_size))
            e = iv
            if subsamples:
                clear = min(5, sample_sizes[i])
                e += struct.pack('>H', 1) + struct.pack('>HI', clear, sample_sizes[i] - clear)
            sizes.append(len(e))
            entries += e
        senc = fullbox(b'senc', 0, 2 if subsamples else 0, struct.pack('>I', n) + entries)
        if per_sample_saiz or len(set(sizes)) > 1:
            saiz = fullbox(b'saiz', 0, 0, struct.pack('>BI', 0, n) + bytes(sizes))
        else:
            saiz = fullbox(b'saiz', 0, 0, struct.pack('>BI', sizes[0] if sizes else 0, n))
        saio_placeholder = fullbox(b'saio', 0, 0, struct.pack('>II', 1, 0))
        enc_boxes = (saiz, saio_placeholder, senc)
    if dur_from == 'trun':
        trun_flags = 0x1 | 0x100 | 0x200
        trun_body = struct.pack('>Ii', n, 0) + b''.join(struct.pack('>II', d, s)
                                                         for d, s in zip(sample_durs, sample_sizes))
    else:
        # sample durations come from tfhd.default_sample_duration or from trex: all samples are equally long
        assert len(set(sample_durs)) == 1, sample_durs
        trun_flags = 0x1 | 0x200
        trun_body = struct.pack('>Ii', n, 0) + b''.join(struct.pack('>I', s) for s in sample_sizes)
    trun = fullbox(b'trun', 0, trun_flags, trun_body)

    def build(base_data_offset, data_offset, saio_off):
        dflt = struct.pack('>I', sample_durs[0]) if dur_from == 'tfhd' else b''
        dfl = 0x000008 if dur_from == 'tfhd' else 0
        if base == 'moof':
            tfhd = fullbox(b'tfhd', 0, 0x020000 | dfl, struct.pack('>I', track_id) + dflt)
        elif base == 'explicit':
            tfhd = fullbox(b'tfhd', 0, 0x000001 | dfl, struct.pack('>IQ', track_id, base_data_offset) + dflt)
        else:   # 'none': neither flag; base defaults to the moof start for the first traf
            tfhd = fullbox(b'tfhd', 0, dfl, struct.pack('>I', track_id) + dflt)
        tr = fullbox(b'trun', 0, trun_flags, struct.pack('>Ii', n, data_offset) + trun_body[8:])
        parts = tfhd + tfdt_box
        senc_pos_in_traf = None
        if encrypted:
            saiz, _, senc = enc_boxes
            saio = fullbox(b'saio', 0, 0, struct.pack('>II', 1, saio_off))
            parts += saiz + saio
            senc_pos_in_traf = len(parts)
            parts += senc
        parts += tr
        traf = box(b'traf', parts)
        # a version 1 pssh after the traf names further key ids of the track (key rotation style signalling)
        moof = box(b'moof', mfhd + traf + (moof_pssh or b''))
        return moof, senc_pos_in_traf

    moof, senc_pos = build(0, 0, 0)
    sidx_box = b''
    em = b''
    if emsg:
        em = emsg
    if sidx:
        ref_size = len(em) + len(moof) + 8 + len(payload)
        sidx_box = fullbox(b'sidx', 0, 0, struct.pack('>IIII', track_id, timescale, decode_time & 0xFFFFFFFF, 0) +
                           struct.pack('>HH', 0, 1) +
                           struct.pack('>III', ref_size, sum(sample_durs), 0x90000000))
    moof_pos = file_offset + len(pre) + len(sidx_box) + len(em)
    data_offset = len(moof) + (16 if mdat64 else 8)
    saio_off = 0
    if encrypted:
        # traf starts at moof + 8 + len(mfhd); traf header 8; senc header 8 + fullbox 4 + count 4
        saio_off = 8 + len(mfhd) + 8 + senc_pos + 16
    moof, _ = build(moof_pos, data_offset, saio_off)
    mdat = (struct.pack('>I4sQ', 1, b'mdat', 16 + len(payload)) + payload) if mdat64 else box(b'mdat', payload)
    return pre + sidx_box + em + moof + mdat + (box(b'free', bytes(free_pad)) if free_pad else b'')


def make_file(*, kind='video', timescale=1000, durations=(2000, 3000, 2500, 1500, 4000), start_time=0,
              tfdt='v1', styp=False, sidx=False, base='moof', samples_per_seg=2, encrypted=False, iv_size=8,
              subsamples=False, file_id=1, track_id=1, start_number=1, sample_size=40,
              per_sample_saiz=False, extra_kids=(), dur_from='trun', trex_duration=None, kid=None, free_pad=0, trailer=False, mdat64=False) -> bytes:
    moof_pssh = None
    if extra_kids:
        moof_pssh = fullbox(b'pssh', 1, 0, COMMON_SYSTEM_ID + struct.pack('>I', len(extra_kids)) +
                            b''.join(extra_kids) + struct.pack('>I', 0))
    init = patched_init(kind, encrypted, timescale, track_id, iv_size, trex_duration, kid)
    out = bytearray(init)
    t = start_time
    for i, d in enumerate(durations):
        k = samples_per_seg
        durs = [d // k] * k
        durs[-1] += d - sum(durs)
        sizes = [sample_size + ((i + j) % 3) for j in range(k)]
        payload = payload_bytes(file_id, i + 1, sum(sizes))
        frag = make_fragment(start_number + i, track_id, t, durs, sizes, payload, file_offset=len(out),
                             tfdt=tfdt, base=base, styp=styp, sidx=sidx, timescale=timescale,
                             encrypted=encrypted, iv_size=iv_size, subsamples=subsamples,
                             per_sample_saiz=per_sample_saiz, moof_pssh=moof_pssh if i == 0 else None, dur_from=dur_from, free_pad=free_pad, mdat64=mdat64)
        out += frag
        t += d
    if trailer:
        # a movie fragment random access box after the last fragment: part of the file, of no segment
        mfro = fullbox(b'mfro', 0, 0, struct.pack('>I', 8 + 16))
        out += box(b'mfra', mfro)
    return bytes(out)


COMMON_SYSTEM_ID = bytes.fromhex('1077efecc0b24d02ace33c1e52e2fb4b')
SECOND_KID = bytes.fromhex('0102030405060708090a0b0c0d0e0f10')
AUDIO_KID = bytes.fromhex('a1a2a3a4a5a6a7a8a9aaabacadaeaf00')

# The catalogue of synthetic streams used by the checks (name -> {file name: recipe})
RECIPES = {
    # irregular durations, audio whose total differs from the video reference and is not integral in it
    'synirr': {
        'synirr_v1': dict(kind='video', timescale=1000, durations=(2000, 3000, 2500, 1500, 4000), file_id=1),
        'synirr_a1': dict(kind='audio', timescale=44100, track_id=2, file_id=2,
                          durations=(88200, 132300, 110250, 66150, 175000), samples_per_seg=3),
    },
    # non-zero first decode time, tfdt v0, styp+sidx, explicit base_data_offset
    'synoff': {
        'synoff_v1': dict(kind='video', timescale=600, durations=(1200, 1200, 1800, 600, 1200, 1200),
                          start_time=7200, tfdt='v0', styp=True, sidx=True, base='explicit', file_id=3),
        'synoff_a1': dict(kind='audio', timescale=48000, track_id=2, file_id=4, start_time=576000,
                          durations=(96000, 96000, 144000, 48000, 96000, 95000), tfdt='v1', styp=True),
    },
    # no tfdt at all, no base flag
    'synnot': {
        'synnot_v1': dict(kind='video', timescale=1000, durations=(2000, 2000, 2000, 2000), tfdt=None,
                          base='none', file_id=5),
        'synnot_a1': dict(kind='audio', timescale=1000, track_id=2, durations=(2000, 2000, 2000, 1990),
                          tfdt=None, file_id=6),
    },
    # strongly irregular durations (quarter/half-segment rounding of time lookups picks a neighbour)
    'synwild': {
        'synwild_v1': dict(kind='video', timescale=1000, durations=(1000, 4000, 1000, 4000, 1000), file_id=9),
        'synwild_a1': dict(kind='audio', timescale=48000, track_id=2, file_id=10,
                           durations=(48000, 192000, 48000, 192000, 47000)),
    },
    # fragments that are not numbered from 1 (mfhd.sequence_number starts at 7)
    'synnum': {
        'synnum_v1': dict(kind='video', timescale=1000, durations=(2000, 2000, 2000, 2000, 2000), file_id=11, start_number=7),
        'synnum_a1': dict(kind='audio', timescale=48000, track_id=2, file_id=12, start_number=7,
                          durations=(96000, 96000, 96000, 96000, 96000)),
    },
    # fragments numbered from 0
    'synzero': {
        # (the video fragments carry their payload in an mdat with the 64-bit size form)
        'synzero_v1': dict(kind='video', timescale=1000, durations=(2000, 2000, 2000, 2000, 2000), file_id=19, start_number=0,
                           mdat64=True),
        'synzero_a1': dict(kind='audio', timescale=48000, track_id=2, file_id=20, start_number=0,
                           durations=(96000, 96000, 96000, 96000, 96000)),
    },
    # encrypted variants: 16-byte IV with sub-samples (video), 8-byte IV without (audio), + clear twins
    'synenc': {
        'synenc_v1': dict(kind='video', timescale=1000, durations=(2000, 3000, 2000), file_id=7),
        'synenc_v1_enc': dict(kind='video', timescale=1000, durations=(2000, 3000, 2000), file_id=7,
                              encrypted=True, iv_size=16, subsamples=True),
        'synenc_a1': dict(kind='audio', timescale=48000, track_id=2, durations=(96000, 144000, 96000), file_id=8),
        'synenc_a1_enc': dict(kind='audio', timescale=48000, track_id=2, durations=(96000, 144000, 96000),
                              file_id=8, encrypted=True, iv_size=8, subsamples=False),
    },
    # sample durations that are not in trun: video takes them from tfhd.default_sample_duration (trex says something
    # else), audio from trex.default_sample_duration
    'syndef': {
        'syndef_v1': dict(kind='video', timescale=1000, durations=(2000, 2000, 2000, 2000), file_id=15, dur_from='tfhd',
                          trex_duration=40),
        'syndef_a1': dict(kind='audio', timescale=48000, track_id=2, durations=(96000, 96000, 96000, 96000), file_id=16,
                          samples_per_seg=4, dur_from='trex', trex_duration=24000),
    },
    # track ids that are not 1 (video) and 2 (audio); a padding `free` box after every mdat
    'syntrk': {
        'syntrk_v1': dict(kind='video', timescale=1000, track_id=3, durations=(2000, 3000, 2000, 3000), file_id=17, free_pad=24),
        'syntrk_a1': dict(kind='audio', timescale=48000, track_id=5, durations=(96000, 144000, 96000, 144000), file_id=18,
                          free_pad=8, trailer=True),
    },
    # a track with two key ids: the tenc default and a second one named by a pssh box in the first fragment
    'synmk': {
        'synmk_v1': dict(kind='video', timescale=1000, durations=(2000, 2000, 2000), file_id=13),
        'synmk_v1_enc': dict(kind='video', timescale=1000, durations=(2000, 2000, 2000), file_id=13,
                             encrypted=True, iv_size=8, extra_kids=(SECOND_KID,), mdat64=True),
        'synmk_a1': dict(kind='audio', timescale=48000, track_id=2, durations=(96000, 96000, 96000), file_id=14),
        # ... and an audio track under a key of its own, with 16-byte IVs where the video has 8-byte ones
        'synmk_a1_enc': dict(kind='audio', timescale=48000, track_id=2, durations=(96000, 96000, 96000), file_id=14,
                             encrypted=True, iv_size=16, kid=AUDIO_KID),
    },
}


@lru_cache(maxsize=None)
def stream_files(name: str) -> dict:
    return {fname: make_file(**recipe) for fname, recipe in RECIPES[name].items()}
