"""Shared manifest crawler: fetch a manifest at a virtual instant, read it with
the independent MPD reader, fetch what it advertises, hand every response to
the oracles of the calling property.
"""
from __future__ import annotations

import datetime
from fractions import Fraction
from functools import lru_cache
from urllib.parse import urlencode, quote

from . import bmff, core, mpd, world as W

US = datetime.timedelta(microseconds=1)


class Stored:
    """The oracle's view of a stored stream: bytes and an independent scan per file."""
    _cache: dict = {}

    def __init__(self, directory, files: dict[str, bytes]):
        self.directory = directory
        self.files = {}
        for name, data in files.items():
            init, segs, init_end = bmff.scan_file(data)
            self.files[name] = {'data': data, 'init': init, 'segs': segs, 'init_end': init_end}

    @classmethod
    def fixture(cls, name):
        if name not in cls._cache and name.startswith('syn'):
            from . import synth
            cls._cache[name] = Stored(name, dict(synth.stream_files(name)))
        if name not in cls._cache:
            d = W.FIXTURES / name
            files = {p.stem: p.read_bytes() for p in sorted(d.glob(f'{name}_*.mp4'))}
            cls._cache[name] = Stored(name, files)
        return cls._cache[name]

    def seg_starts(self, fname):
        """Segment start offsets (Fractions of a second) within one pass of the file."""
        f = self.files[fname]
        ts = f['init'].timescale
        out = []
        cur = 0
        for s in f['segs']:
            out.append(Fraction(cur, ts))
            cur += s['duration']
        return out, Fraction(cur, ts)


def critical_instants(stored: Stored, ref_name: str, names, window_offsets, mup, full=True):
    """Finite set of instants (Fractions of a second in [0, loop)) at which the set of
    addressable segments or the segment chosen for a time can change (DESIGN 3.4/3.6)."""
    _, loop = stored.seg_starts(ref_name)
    K0 = set()
    for n in names:
        starts, total = stored.seg_starts(n)
        pts = set(starts)
        if full:
            ends = starts[1:] + [total]
            pts |= {(a + b) / 2 for a, b in zip(starts, ends)}
            pts.add(total)
        for p in pts:
            for w in window_offsets:
                K0.add((p + Fraction(w)) % loop)
    if mup:
        u = Fraction(0)
        while u < loop:
            K0.add(u)
            u += Fraction(mup)
    K0 = sorted(K0)
    K = set()
    us = Fraction(1, 10 ** 6)
    for k in K0:
        for v in (k - us, k, k + us):
            K.add(v % loop)
    for a, b in zip(K0, K0[1:] + [K0[0] + loop]):
        if b - a > 3 * us:
            K.add(((a + b) / 2) % loop)
    # round to the clock resolution
    K = sorted({Fraction(int(k * 10 ** 6), 10 ** 6) for k in K})
    return K, loop


def make_query(opts: dict) -> str:
    if not opts:
        return ''
    return '?' + urlencode(opts, quote_via=quote, safe=':,')


def manifest_url(mode, stream, template, opts, mps=False):
    root = 'mps' if mps else 'dash'
    return f'/{root}/{mode}/{stream}/{template}.mpd' + make_query(opts)


def select(segs, policy, edge=2):
    """policy 'all' | 'edges' -> list of (segment, position label)"""
    n = len(segs)
    out = []
    for i, s in enumerate(segs):
        if i == 0:
            lab = 'oldest'
        elif i == n - 1:
            lab = 'newest'
        else:
            lab = 'interior'
        if policy == 'all' or i < edge or i >= n - edge:
            out.append((s, lab))
    return out


def iso(dtv: datetime.datetime) -> str:
    return dtv.strftime('%Y-%m-%dT%H:%M:%S') + ('.%06d' % dtv.microsecond if dtv.microsecond else '') + 'Z'


def crawl(w, acc, url, now, *, policy='all', edge=3, on_manifest=None, on_init=None, on_segment=None,
          on_manifest_error=None, headers=None):
    """Fetch the manifest at `now`, read it independently, fetch init + selected segments of every
    Representation and call the callbacks. Returns the Mpd or None."""
    W.set_now(now)
    r = w.get(url, headers=headers)
    acc.count('evaluations')
    acc.count('transitions')
    acc.count('manifests')
    if r.status != 200:
        acc.outcome(('manifest', r.status))
        if on_manifest_error:
            on_manifest_error(r)
        return None
    try:
        doc = mpd.Mpd(r.body, 'http://localhost' + url.split('?')[0])
    except Exception as e:
        acc.outcome(('manifest-unreadable', type(e).__name__))
        if on_manifest_error:
            on_manifest_error(r, e)
        return None
    acc.count('traces')
    if on_manifest:
        on_manifest(doc, r)
    for rep in doc.all_reps():
        iu = rep.init_url()
        if iu and on_init:
            ir = w.get(mpd.split_url(iu))
            acc.count('evaluations')
            acc.count('transitions')
            on_init(doc, rep, mpd.split_url(iu), ir)
        if on_segment is None:
            continue
        try:
            segs = doc.segments(rep, now)
        except mpd.MpdError as e:
            acc.outcome(('unreadable-rep', str(e)[:40]))
            continue
        for seg, pos in select(segs, policy, edge=edge):
            path = mpd.split_url(seg['url'])
            sr = w.get(path)
            acc.count('evaluations')
            acc.count('transitions')
            on_segment(doc, rep, seg, pos, path, sr)
    return doc
