"""Differential history oracle: the answer to a session does not depend on what the process served before.

A *session* is (url of a manifest, clock): the manifest, the init segment and every listed media segment of every
Representation, fetched in order. digest(session) is the list of (path, status, hash of the body).

For an ordered pair (a, b) the pair is run in a process forked for this pair alone from a process that has never
served a request (so module-level state is pristine), and b's digest is compared with the digest of b run alone in
another such process. Nothing is sampled: the caller enumerates every ordered pair of its alphabet.
"""
from __future__ import annotations

import hashlib
import os
import pickle

from mc import core, crawl, world as W


def session_digest(w, url, now, manifest_only=False):
    out = []

    def h(b):
        return hashlib.blake2b(b or b'', digest_size=8).hexdigest()

    def on_manifest(doc, r):
        out.append(('manifest', r.status, h(r.body)))

    def on_init(doc, rep, path, ir):
        out.append((path, ir.status, h(ir.body)))

    def on_segment(doc, rep, seg, pos, path, sr):
        out.append((path, sr.status, h(sr.body)))

    def on_err(r, e=None):
        out.append(('manifest', r.status, h(r.body)))
    if manifest_only:
        W.set_now(now)
        r = w.get(url)
        return [('manifest', r.status, h(r.body))]
    crawl.crawl(w, core.Acc(), url, now, policy='all', on_manifest=on_manifest, on_init=on_init, on_segment=on_segment,
                on_manifest_error=on_err)
    return out


def run_forked(fn, arg):
    """fn(arg) in a child forked from this process; the result comes back pickled through a pipe."""
    rfd, wfd = os.pipe()
    pid = os.fork()
    if pid == 0:
        code = 0
        try:
            os.close(rfd)
            try:
                data = pickle.dumps(('ok', fn(arg)))
            except BaseException as e:      # noqa
                import traceback
                data = pickle.dumps(('err', traceback.format_exc()))
            with os.fdopen(wfd, 'wb') as f:
                f.write(data)
        except BaseException:
            code = 1
        os._exit(code)
    os.close(wfd)
    with os.fdopen(rfd, 'rb') as f:
        data = f.read()
    os.waitpid(pid, 0)
    if not data:
        raise core.HarnessError('forked session produced no result')
    kind, val = pickle.loads(data)
    if kind == 'err':
        raise core.HarnessError(val)
    return val


def _sessions(seq):
    w = W.World.shared()
    w.begin_item()
    return [session_digest(w, s[0], W.set_now(s[1]), *s[2:]) for s in seq]        # now: ISO text


def pair_item(arg):
    """arg = (prop id, clause prefix, a index, alphabet [(label, url, now)]) -> Acc.
    Runs in a pool worker that itself never serves a request."""
    prop, a, alphabet = arg
    acc = core.Acc()
    la, ua, na = alphabet[a][:3]
    for b, sb in enumerate(alphabet):
        lb, ub, nb = sb[:3]
        if b == a:
            continue
        alone = run_forked(_sessions, [sb[1:]])[0]
        after = run_forked(_sessions, [alphabet[a][1:], sb[1:]])[1]
        acc.count('evaluations', 2 * len(alone) + len(after))
        acc.count('transitions', 2)
        acc.state(('history', la, lb))
        acc.nontriv(('history', la, lb))
        if alone != after:
            diff = [(x[0], x[1], y[1]) for x, y in zip(alone, after) if x != y][:3]
            acc.violation(f'{prop}|history|answer-depends-on-earlier-request|{lb}',
                          f'session {ub} answers differently after session {ua} was served by the same process than '
                          f'in a fresh process: first differences (path, status alone, status after) {diff}; '
                          f'{len(alone)} vs {len(after)} responses',
                          {'kind': 'history-pair', 'a': list(alphabet[a]), 'b': list(sb)})
    return acc


# ---------------------------------------------------------------------------
# the same oracle for library calls: runner(entry) -> picklable digest of what the call returned

def _resolve(path):
    import importlib
    mod, fn = path.split(':')
    return getattr(importlib.import_module(mod), fn)


def _calls(arg):
    runner, entries = arg
    fn = _resolve(runner)
    return [fn(e) for e in entries]


def call_pair_item(arg):
    """arg = (prop id, a index, alphabet [(label, ...)], 'module:function' runner). The worker itself never calls the
    library; every pair runs in a process forked for it."""
    prop, a, alphabet, runner = arg
    acc = core.Acc()
    ea = alphabet[a]
    for b, eb in enumerate(alphabet):
        if b == a:
            continue
        alone = run_forked(_calls, (runner, [eb]))[0]
        after = run_forked(_calls, (runner, [ea, eb]))[1]
        acc.count('evaluations', 3)
        acc.count('transitions', 2)
        acc.state(('call-history', ea[0], eb[0]))
        acc.nontriv(('call-history', ea[0], eb[0]))
        if alone != after:
            acc.violation(f'{prop}|history|result-depends-on-earlier-call|{eb[0].split("|")[0]}',
                          f'{eb[0]} returns {str(after)[:200]} after {ea[0]} was called in the same process, but '
                          f'{str(alone)[:200]} in a fresh process',
                          {'kind': 'call-history-pair', 'a': list(ea), 'b': list(eb), 'runner': runner})
    return acc
