"""The RFC 5261 subset MPD patches use: <replace sel="..."> of an attribute or of
an element selected by a simple absolute location path (child steps with an
optional [n] or [@attr='v'] predicate, optionally ending in @attr).
Names are matched by local name (weaker reading: the namespace of the replacement
elements is not compared). Independent of dashlive.
"""
from __future__ import annotations

import copy
import re

from lxml import etree

STEP = re.compile(r"^([A-Za-z_][\w.-]*)(?:\[(\d+)\]|\[@([\w:.-]+)='([^']*)'\])?$")


class PatchError(Exception):
    pass


def lname(el):
    t = el.tag
    return t.split('}')[-1] if isinstance(t, str) else None


def select(root, sel: str):
    """-> ('attr', element, name) | ('elem', element)"""
    if not sel.startswith('/'):
        raise PatchError(f'only absolute selectors are supported: {sel!r}')
    steps = sel[1:].split('/')
    attr = None
    if steps[-1].startswith('@'):
        attr = steps.pop()[1:]
    if not steps or STEP.match(steps[0]) is None or STEP.match(steps[0]).group(1) != lname(root):
        raise PatchError(f'selector {sel!r} does not start at the root element {lname(root)}')
    cur = root
    for st in steps[1:]:
        m = STEP.match(st)
        if not m:
            raise PatchError(f'unsupported step {st!r} in {sel!r}')
        name, idx, an, av = m.groups()
        kids = [c for c in cur if lname(c) == name]
        if an is not None:
            kids = [c for c in kids if c.get(an) == av]
            if len(kids) != 1:
                raise PatchError(f'{sel!r}: step {st!r} matches {len(kids)} elements')
            cur = kids[0]
        else:
            i = int(idx) if idx else 1
            if idx is None and len(kids) != 1:
                raise PatchError(f'{sel!r}: step {st!r} matches {len(kids)} elements')
            if i < 1 or i > len(kids):
                raise PatchError(f'{sel!r}: step {st!r} out of range ({len(kids)} candidates)')
            cur = kids[i - 1]
    if attr is not None:
        if cur.get(attr) is None:
            raise PatchError(f'{sel!r}: attribute not present')
        return ('attr', cur, attr)
    return ('elem', cur)


def apply(mpd_root, patch_root):
    """Returns a patched deep copy of mpd_root. Raises PatchError if an operation cannot be applied."""
    doc = copy.deepcopy(mpd_root)
    n = 0
    for op in patch_root:
        name = lname(op)
        if name is None:
            continue
        if name != 'replace':
            raise PatchError(f'unsupported operation {name}')
        sel = op.get('sel')
        if sel is None:
            raise PatchError('replace without sel')
        target = select(doc, sel)
        if target[0] == 'attr':
            target[1].set(target[2], (op.text or '').strip())
        else:
            news = [c for c in op if lname(c) is not None]
            if len(news) != 1:
                raise PatchError(f'{sel!r}: replace of an element needs exactly one replacement element, got {len(news)}')
            new = copy.deepcopy(news[0])
            old = target[1]
            new.tail = old.tail
            parent = old.getparent()
            if parent is None:
                raise PatchError('cannot replace the root')
            parent.replace(old, new)
        n += 1
    return doc, n
