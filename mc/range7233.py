"""RFC 7233 single byte-range semantics (reference evaluator; no dashlive code)."""
from __future__ import annotations

import re

SINGLE = re.compile(r'^[ \t]*bytes=(?:([0-9]+)-([0-9]*)|-([0-9]+))[ \t]*$', re.I)


def evaluate(header: str | None, length: int):
    """-> ('absent',) | ('other',) | ('unsat',) | ('range', a, b) with 0 <= a <= b < length"""
    if header is None:
        return ('absent',)
    m = SINGLE.match(header)
    if not m:
        return ('other',)
    first, last, suffix = m.group(1), m.group(2), m.group(3)
    if suffix is not None:
        n = int(suffix)
        if n == 0 or length == 0:
            return ('unsat',)
        return ('range', max(0, length - n), length - 1)
    a = int(first)
    if last != '':
        b = int(last)
        if b < a:
            return ('other',)        # syntactically invalid byte-range-spec: to be ignored / refused
    else:
        b = length - 1
    if a >= length:
        return ('unsat',)
    return ('range', a, min(b, length - 1))


CONTENT_RANGE = re.compile(r'^bytes (\d+)-(\d+)/(\d+)$')
UNSAT_RANGE = re.compile(r'^bytes \*/(\d+)$')
