"""Independent bit-level decoder for SCTE-35 splice_info_section (ANSI/SCTE 35 2019
tables 5, 9, 10, 13, 14) and CRC-32/MPEG-2 from its polynomial. No dashlive code."""
from __future__ import annotations


class Bad(Exception):
    pass


class Bits:
    def __init__(self, data: bytes):
        self.data = data
        self.pos = 0

    def read(self, n):
        v = 0
        for _ in range(n):
            byte = self.pos >> 3
            if byte >= len(self.data):
                raise Bad('ran off the end of the section')
            bit = (self.data[byte] >> (7 - (self.pos & 7))) & 1
            v = (v << 1) | bit
            self.pos += 1
        return v

    def bytepos(self):
        if self.pos & 7:
            raise Bad('not byte aligned')
        return self.pos >> 3


def crc32_mpeg2(data: bytes) -> int:
    crc = 0xFFFFFFFF
    for b in data:
        crc ^= b << 24
        for _ in range(8):
            crc = ((crc << 1) ^ 0x04C11DB7) & 0xFFFFFFFF if crc & 0x80000000 else (crc << 1) & 0xFFFFFFFF
    return crc


def splice_time(r):
    if r.read(1):
        r.read(6)
        return {'time_specified': True, 'pts': r.read(33)}
    r.read(7)
    return {'time_specified': False, 'pts': None}


def break_duration(r):
    auto = r.read(1)
    r.read(6)
    return {'auto_return': bool(auto), 'duration': r.read(33)}


def decode(data: bytes):
    r = Bits(data)
    out = {}
    out['table_id'] = r.read(8)
    if out['table_id'] != 0xFC:
        raise Bad(f'table_id {out["table_id"]:#x}')
    out['section_syntax_indicator'] = r.read(1)
    out['private_indicator'] = r.read(1)
    out['sap_type'] = r.read(2)
    out['section_length'] = r.read(12)
    if out['section_length'] + 3 != len(data):
        raise Bad(f'section_length {out["section_length"]} + 3 != {len(data)} bytes')
    out['protocol_version'] = r.read(8)
    out['encrypted_packet'] = r.read(1)
    out['encryption_algorithm'] = r.read(6)
    out['pts_adjustment'] = r.read(33)
    out['cw_index'] = r.read(8)
    out['tier'] = r.read(12)
    out['splice_command_length'] = r.read(12)
    out['splice_command_type'] = r.read(8)
    start = r.bytepos()
    t = out['splice_command_type']
    if t == 5:
        si = {'splice_event_id': r.read(32), 'cancel': bool(r.read(1))}
        r.read(7)
        if not si['cancel']:
            si['out_of_network'] = bool(r.read(1))
            si['program_splice'] = bool(r.read(1))
            si['duration_flag'] = bool(r.read(1))
            si['immediate'] = bool(r.read(1))
            r.read(4)
            if si['program_splice'] and not si['immediate']:
                si['splice_time'] = splice_time(r)
            if not si['program_splice']:
                n = r.read(8)
                si['components'] = []
                for _ in range(n):
                    tag = r.read(8)
                    st = None if si['immediate'] else splice_time(r)
                    si['components'].append((tag, st))
            if si['duration_flag']:
                si['break_duration'] = break_duration(r)
            si['unique_program_id'] = r.read(16)
            si['avail_num'] = r.read(8)
            si['avails_expected'] = r.read(8)
        out['splice_insert'] = si
    elif t == 6:
        out['time_signal'] = splice_time(r)
    elif t == 0:
        pass
    else:
        raise Bad(f'command type {t} not decoded by this reader')
    if out['splice_command_length'] != 0xFFF and r.bytepos() - start != out['splice_command_length']:
        raise Bad(f'splice_command_length {out["splice_command_length"]} but the command is {r.bytepos() - start} bytes')
    dl = r.read(16)
    end = r.bytepos() + dl
    descs = []
    while r.bytepos() < end:
        tag = r.read(8)
        ln = r.read(8)
        body_start = r.bytepos()
        ident = r.read(32)
        d = {'tag': tag, 'length': ln, 'identifier': ident}
        if tag == 0 and ln >= 8:
            d['provider_avail_id'] = r.read(32)
        elif tag == 2:
            d['segmentation_event_id'] = r.read(32)
            d['cancel'] = bool(r.read(1))
            r.read(7)
            if not d['cancel']:
                psf = r.read(1)
                sdf = r.read(1)
                dnr = r.read(1)
                if dnr == 0:
                    r.read(5)
                else:
                    r.read(5)
                if not psf:
                    n = r.read(8)
                    for _ in range(n):
                        r.read(8)
                        r.read(7)
                        r.read(33)
                if sdf:
                    d['segmentation_duration'] = r.read(40)
                d['upid_type'] = r.read(8)
                ul = r.read(8)
                d['upid'] = bytes(r.read(8) for _ in range(ul))
                d['segmentation_type_id'] = r.read(8)
                d['segment_num'] = r.read(8)
                d['segments_expected'] = r.read(8)
        # skip whatever is left of this descriptor
        used = r.bytepos() - body_start
        if used > ln:
            raise Bad(f'descriptor tag {tag}: decoded {used} bytes, length field says {ln}')
        for _ in range(ln - used):
            r.read(8)
        descs.append(d)
    if r.bytepos() != end:
        raise Bad('descriptor loop length mismatch')
    out['descriptors'] = descs
    body_end = len(data) - 4
    if r.bytepos() > body_end:
        raise Bad('no room for CRC_32')
    out['stuffing'] = body_end - r.bytepos()
    stored = int.from_bytes(data[-4:], 'big')
    out['crc_stored'] = stored
    out['crc_valid'] = crc32_mpeg2(data[:-4]) == stored
    return out
