"""The in-process world: a real dash-live Flask app on in-memory SQLite with a
virtual clock, deterministic randomness and exact snapshot/restore.

All seams are harness-side monkeypatches; nothing in /repo is hooked.
"""
from __future__ import annotations

import base64
import binascii
import datetime
import hashlib
import io
import json
import os
import shutil
import signal
import sys
import tempfile
import time
import traceback
from pathlib import Path

from . import core

REPO = core.REPO
if str(REPO) not in sys.path:
    sys.path.insert(0, str(REPO))

FIXTURES = REPO / 'tests' / 'fixtures'

_real_datetime = datetime.datetime
_real_time = time.time

# ---------------------------------------------------------------------------
# clock seam (same technique as upstream's tests/mixins/mock_time.py, re-implemented)


class _Clock:
    now: datetime.datetime = _real_datetime(2024, 1, 1, tzinfo=datetime.timezone.utc)
    installed = False


class _DatetimeMeta(type):
    def __instancecheck__(cls, obj):
        return isinstance(obj, _real_datetime)

    def __subclasscheck__(cls, sub):
        return issubclass(sub, _real_datetime)


class _BaseMocked(_real_datetime):
    @classmethod
    def now(cls, tz=None):
        n = _Clock.now
        if tz is None:
            return n.replace(tzinfo=None)
        return n.astimezone(tz) if n.tzinfo is not None else n.replace(tzinfo=tz)

    @classmethod
    def utcnow(cls):
        return _Clock.now.replace(tzinfo=None)


MockedDatetime = _DatetimeMeta('datetime', (_BaseMocked,), {})


def install_clock():
    if _Clock.installed:
        return
    datetime.datetime = MockedDatetime
    _Clock.installed = True


def set_now(value):
    """value: aware datetime, ISO string, or float seconds since the Unix epoch."""
    if isinstance(value, str):
        value = _real_datetime.fromisoformat(value.replace('Z', '+00:00'))
    elif isinstance(value, (int, float)):
        value = _real_datetime.fromtimestamp(value, tz=datetime.timezone.utc)
    if value.tzinfo is None:
        value = value.replace(tzinfo=datetime.timezone.utc)
    # hand out plain datetime objects (never the mocked subclass)
    _Clock.now = _real_datetime(value.year, value.month, value.day, value.hour, value.minute,
                                value.second, value.microsecond, tzinfo=datetime.timezone.utc) \
        - (value.utcoffset() or datetime.timedelta(0))
    return _Clock.now


def get_now():
    return _Clock.now


def advance(seconds: float):
    _Clock.now = _Clock.now + datetime.timedelta(seconds=seconds)
    return _Clock.now


# ---------------------------------------------------------------------------
class _DetSecrets:
    """Counter-based stand-in for the `secrets` module used by csrf.py / user.py."""

    def __init__(self):
        self.n = 0

    def token_urlsafe(self, nbytes=32):
        self.n += 1
        raw = hashlib.blake2b(b'verif-%d' % self.n, digest_size=max(1, min(64, nbytes))).digest()
        while len(raw) < nbytes:
            raw += hashlib.blake2b(raw, digest_size=64).digest()
        return base64.urlsafe_b64encode(raw[:nbytes]).rstrip(b'=').decode('ascii')

    def token_bytes(self, n=32):
        self.n += 1
        return hashlib.blake2b(b'verif-%d' % self.n, digest_size=min(64, n)).digest()

    def token_hex(self, n=32):
        return binascii.hexlify(self.token_bytes(n)).decode()

    def __getattr__(self, name):
        import secrets
        return getattr(secrets, name)


class Resp:
    __slots__ = ('status', 'headers', 'body', 'exc', 'wall', 'unbounded')

    def __init__(self, status, headers, body, exc, wall, unbounded=False):
        self.status = status
        self.headers = headers
        self.body = body
        self.exc = exc
        self.wall = wall
        self.unbounded = unbounded

    @property
    def text(self):
        return self.body.decode('utf-8', 'replace')

    def json(self):
        return json.loads(self.body)


class _Timeout(BaseException):
    pass


USERS = {
    'admin': ('admin', 'admin@dashlive.unit.test', 'suuuperSecret!'),
    'user': ('user', 'user@dashlive.unit.test', 'pa55word'),
    'media': ('media', 'media@dashlive.unit.test', 'm3d!a'),
}


class World:
    """One app instance; long-lived per worker process."""

    _instance = None
    _instances: dict = {}

    @classmethod
    def shared(cls, **kw) -> 'World':
        """One long-lived world per distinct configuration and process."""
        key = tuple(sorted((k, tuple(v) if isinstance(v, (list, tuple)) else v) for k, v in kw.items()))
        if cls._instance is None and key in cls._instances:
            del cls._instances[key]         # invalidated (see request(): a timeout that could not be repaired)
        if key not in cls._instances:
            cls._instances[key] = World(**kw)
            cls._instances[key]._key = key
        cls._instance = cls._instances[key]
        return cls._instance

    def __init__(self, streams=('bbb', 'tears', 'synirr', 'synoff', 'synnot', 'synenc', 'synwild', 'synnum', 'synmk', 'syndef', 'syntrk', 'synzero'), users=True, writable_blobs=False, with_subs=True,
                 propagate=False, mps=True, extras=False):
        import logging
        logging.disable(logging.CRITICAL)
        from dashlive.server.app import create_app
        from dashlive.server import models
        from dashlive.server.models import user as user_mod
        from dashlive.server.requesthandler import csrf as csrf_mod
        from passlib.context import CryptContext
        install_clock()
        self.models = models
        self.tmp = Path(tempfile.mkdtemp(prefix='world-', dir=str(core.run_dir())))
        self.blob_folder = self.tmp / 'blobs'
        self.blob_folder.mkdir()
        (self.tmp / 'uploads').mkdir()
        (self.tmp / 'instance').mkdir()
        self.secrets = _DetSecrets()
        csrf_mod.secrets = self.secrets
        user_mod.secrets = self.secrets
        user_mod.password_context = CryptContext(schemes=['plaintext'])
        config = {
            'BLOB_FOLDER': str(self.blob_folder),
            'DASH': {
                'ALLOWED_DOMAINS': '*',
                'CSRF_SECRET': 'test.csrf.secret',
                'DEFAULT_ADMIN_USERNAME': 'admin',
                'DEFAULT_ADMIN_PASSWORD': USERS['admin'][2],
            },
            'UPLOAD_FOLDER': str(self.tmp / 'uploads'),
            'SECRET_KEY': 'cookie.secret',
            'SQLALCHEMY_DATABASE_URI': 'sqlite:///:memory:',
            'TESTING': False,
            'PROPAGATE_EXCEPTIONS': bool(propagate),
            'LOG_LEVEL': 'critical',
            'PREFERRED_URL_SCHEME': 'http',
            'JWT_SECRET_KEY': 'jwt.secret.for.the.verification.world.0123456789',
            # flask_jwt_extended stamps and checks its tokens against the real clock (default life time: 15 minutes). A
            # bearer token obtained when a worker starts must stay valid for the whole exploration, however long it runs:
            # the real clock is not one of the explored dimensions (C17 thorough runs longer than 15 minutes and operations
            # sent with a bearer token began to answer 401 part-way through)
            'JWT_ACCESS_TOKEN_EXPIRES': datetime.timedelta(days=3650),
            'JWT_REFRESH_TOKEN_EXPIRES': datetime.timedelta(days=3650),
        }
        self.app = create_app(config=config, instance_path=str(self.tmp / 'instance'),
                              create_default_user=False, wss=False)
        self.app.config['BLOB_FOLDER'] = str(self.blob_folder)
        self.app.config['UPLOAD_FOLDER'] = str(self.tmp / 'uploads')
        self.last_exc = None

        from flask import got_request_exception

        def _on_exc(sender, exception, **extra):
            self.last_exc = (type(exception).__name__, ''.join(
                traceback.format_exception(type(exception), exception, exception.__traceback__)))
        self._on_exc = _on_exc
        got_request_exception.connect(_on_exc, self.app, weak=False)

        # No application context stays pushed while requests are served: Flask would reuse it for every
        # request and flask.g would leak from one request into the next.
        self.ctx = self.app.app_context()
        self.ctx.push()
        db = models.db
        if users:
            for name, (uname, email, pw) in USERS.items():
                mask = {'admin': models.Group.ADMIN, 'user': models.Group.USER,
                        'media': models.Group.USER + models.Group.MEDIA}[name]
                db.session.add(models.User(username=uname, email=email,
                                           password=models.User.hash_password(pw),
                                           groups_mask=mask, must_change=False))
            models.User.get_guest_user()
            db.session.commit()
        self.stream_names = []
        for s in streams:
            if s.startswith('syn'):
                self.add_synth_stream(s)
            else:
                self.add_fixture_stream(s, with_subs=with_subs, copy=writable_blobs)
        if extras:
            self.add_extras()
        if users:
            # a second, explicit (not computed) key so that key-set alphabets have two known ids
            if models.Key.get(hkid='00112233445566778899aabbccddeeff') is None:
                db.session.add(models.Key(hkid='00112233445566778899aabbccddeeff',
                                          hkey='ffeeddccbbaa99887766554433221100', computed=False))
                db.session.commit()
        if mps and 'bbb' in streams and 'tears' in streams:
            self.add_mps('testmps', [
                dict(pid='p1', stream='bbb', start=4, duration=32, tracks=[('video', 1), ('audio', 2)]),
                dict(pid='p2', stream='tears', start=8, duration=44, tracks=[('video', 1), ('audio', 2)]),
            ])
        if mps and 'bbb' in streams and 'synenc' in streams:
            # Periods from two streams that both have encrypted media (and different licence URLs)
            self.add_mps('encmps', [
                dict(pid='e1', stream='bbb', start=0, duration=8, tracks=[('video', 1), ('audio', 2)]),
                dict(pid='e2', stream='synenc', start=0, duration=7, tracks=[('video', 1), ('audio', 2)]),
            ])
        if extras:
            self.add_extras_mps()
        db.session.remove()
        self.ctx.pop()
        self.ctx = None
        self.base_snapshot = self.snapshot()

    # -- store -----------------------------------------------------------
    def add_fixture_stream(self, name, with_subs=True, copy=False, title=None, timing_ref=None):
        """Register tests/fixtures/<name> as a stream, indexed by the service's own indexer."""
        models = self.models
        from dashlive.drm.playready import PlayReady
        from dashlive.mpeg import mp4
        from dashlive.mpeg.dash.representation import Representation
        src_dir = FIXTURES / name
        dst = self.blob_folder / name
        if copy:
            shutil.copytree(src_dir, dst)
        else:
            os.symlink(src_dir, dst)
        titles = {'bbb': 'Big Buck Bunny', 'tears': 'Tears of Steel'}
        stream = models.Stream(
            title=title or titles.get(name, name), directory=name,
            marlin_la_url=f'ms3://localhost/marlin/{name}',
            playready_la_url=PlayReady.TEST_LA_URL)
        models.db.session.add(stream)
        pattern = f'{name}_[avt]*.mp4' if with_subs else f'{name}_[av]*.mp4'
        files = sorted(p for p in src_dir.glob(pattern))
        for p in files:
            stem = p.stem
            ctype = 'video' if '_v' in stem else ('audio' if '_a' in stem else 'text')
            blob = models.Blob(
                filename=p.name, created=_real_datetime(2022, 9, 1, 12, 23, 0),
                size=p.stat().st_size, sha1_hash=hashlib.sha1(p.read_bytes()).hexdigest(),
                content_type=ctype, auto_delete=False)
            with p.open('rb', buffering=16384) as src:
                atoms = mp4.Mp4Atom.load(src)
            rep = Representation.load(p.name, atoms)
            mf = models.MediaFile(
                name=stem, stream=stream, bitrate=rep.bitrate, content_type=rep.content_type,
                codec_fourcc=rep.codecs.split('.')[0], track_id=rep.track_id,
                encrypted=rep.encrypted, blob=blob)
            mf.set_representation(Representation(**rep.toJSON(pure=True)))   # as read back from the store
            models.db.session.add(blob)
            models.db.session.add(mf)
            want_ref = timing_ref or None
            if stream.timing_reference is None and (
                    (want_ref is None and '_v' in stem) or want_ref == stem):
                stream.timing_reference = mf.as_stream_timing_reference()
        models.db.session.commit()
        self._add_keys()
        self.stream_names.append(name)
        return stream

    def add_synth_stream(self, name, title=None, timing_ref=None):
        """Write the synthetic files of mc.synth.RECIPES[name] into the blob folder and register them,
        indexed by the service's own indexer."""
        from . import synth
        models = self.models
        from dashlive.mpeg import mp4
        from dashlive.mpeg.dash.representation import Representation
        files = synth.stream_files(name)
        d = self.blob_folder / name
        d.mkdir(exist_ok=True)
        stream = models.Stream(title=title or f'synthetic {name}', directory=name,
                               marlin_la_url=f'ms3://localhost/marlin/{name}',
                               # (synenc has a licence URL of its own: in a multi-period stream next to bbb the two differ)
                               playready_la_url=('https://lic.example/synenc/rights' if name == 'synenc' else
                                                 'https://test.playready.microsoft.com/service/rightsmanager.asmx?cfg={cfgs}'))
        models.db.session.add(stream)
        for stem in sorted(files):
            data = files[stem]
            p = d / f'{stem}.mp4'
            p.write_bytes(data)
            ctype = 'video' if '_v' in stem else ('audio' if '_a' in stem else 'text')
            blob = models.Blob(filename=p.name, created=_real_datetime(2022, 9, 1, 12, 23, 0), size=len(data),
                               sha1_hash=hashlib.sha1(data).hexdigest(), content_type=ctype, auto_delete=False)
            with p.open('rb', buffering=16384) as src:
                atoms = mp4.Mp4Atom.load(src)
            rep = Representation.load(p.name, atoms)
            mf = models.MediaFile(name=stem, stream=stream, bitrate=rep.bitrate, content_type=rep.content_type,
                                  codec_fourcc=rep.codecs.split('.')[0], track_id=rep.track_id,
                                  encrypted=rep.encrypted, blob=blob)
            mf.set_representation(Representation(**rep.toJSON(pure=True)))   # as read back from the store
            models.db.session.add(blob)
            models.db.session.add(mf)
            if stream.timing_reference is None and ((timing_ref is None and '_v' in stem) or timing_ref == stem):
                stream.timing_reference = mf.as_stream_timing_reference()
        models.db.session.commit()
        self._add_keys()
        self.stream_names.append(name)
        return stream

    def add_extras(self):
        """Streams with missing pieces (C16): video only, no timing reference, an un-indexed file, no media."""
        from . import synth
        models = self.models
        from dashlive.mpeg import mp4
        from dashlive.mpeg.dash.representation import Representation
        specs = {
            'synvid': {'synvid_v1': dict(kind='video', timescale=1000, durations=(2000, 2000, 2000), file_id=21)},
            'synnoref': {'synnoref_v1': dict(kind='video', timescale=1000, durations=(2000, 2000, 2000), file_id=22),
                         'synnoref_a1': dict(kind='audio', timescale=48000, track_id=2, durations=(96000, 96000, 96000), file_id=23)},
            'synunidx': {'synunidx_v1': dict(kind='video', timescale=1000, durations=(2000, 2000, 2000), file_id=24),
                         'synunidx_v2': dict(kind='video', timescale=1000, durations=(2000, 2000, 2000), file_id=25)},
            'synempty': {},
            # an audio file that is the timing reference and a video "file" that is not an MP4 at all (never indexed)
            'synbroken': {'synbroken_a1': dict(kind='audio', timescale=48000, track_id=2, durations=(96000, 96000, 96000), file_id=26),
                          'synbroken_v1': None},
        }
        for name, files in specs.items():
            d = self.blob_folder / name
            d.mkdir(exist_ok=True)
            stream = models.Stream(title=f'extra {name}', directory=name, marlin_la_url=None, playready_la_url=None)
            models.db.session.add(stream)
            for stem, recipe in sorted(files.items()):
                data = synth.make_file(**recipe) if recipe is not None else b'this is not an MP4 file' * 40
                p = d / f'{stem}.mp4'
                p.write_bytes(data)
                ctype = 'video' if '_v' in stem else 'audio'
                blob = models.Blob(filename=p.name, created=_real_datetime(2022, 9, 1, 12, 23, 0), size=len(data),
                                   sha1_hash=hashlib.sha1(data).hexdigest(), content_type=ctype, auto_delete=False)
                mf = models.MediaFile(name=stem, stream=stream, content_type=ctype, blob=blob)
                models.db.session.add(blob)
                models.db.session.add(mf)
                if recipe is None:
                    mf.track_id = 1
                    continue
                if not (name == 'synunidx' and stem.endswith('v2')):
                    with p.open('rb', buffering=16384) as src:
                        atoms = mp4.Mp4Atom.load(src)
                    rep = Representation.load(p.name, atoms)
                    mf.bitrate = rep.bitrate
                    mf.codec_fourcc = rep.codecs.split('.')[0]
                    mf.track_id = rep.track_id
                    mf.encrypted = rep.encrypted
                    mf.set_representation(Representation(**rep.toJSON(pure=True)))   # as read back from the store
                    if name != 'synnoref' and stream.timing_reference is None and (ctype == 'video' or name == 'synbroken'):
                        stream.timing_reference = mf.as_stream_timing_reference()
            self.stream_names.append(name)
        models.db.session.commit()

    def add_extras_mps(self):
        # multi-period streams over the streams with missing pieces (after testmps: its Period keys stay 1 and 2)
        self.add_mps('mpsbroken', [dict(pid='b1', stream='synbroken', start=0, duration=4, tracks=[('video', 1), ('audio', 2)]),
                                   dict(pid='b2', stream='synvid', start=0, duration=4, tracks=[('video', 1)])])
        self.add_mps('mpsunidx', [dict(pid='u1', stream='synunidx', start=0, duration=4, tracks=[('video', 1)])])

    def add_mps(self, name, periods, title=None):
        """periods: list of dict(pid, stream, start (s), duration (s), tracks=[(content_type, track_id)])"""
        models = self.models
        from dashlive.mpeg.dash.content_role import ContentRole
        mps = models.MultiPeriodStream(name=name, title=title or f'mps {name}')
        models.db.session.add(mps)
        for idx, p in enumerate(periods, start=1):
            stream = models.Stream.get(directory=p['stream'])
            prd = models.Period(pid=p['pid'], parent=mps, ordering=idx, stream=stream,
                                start=datetime.timedelta(seconds=p['start']),
                                duration=datetime.timedelta(seconds=p['duration']))
            models.db.session.add(prd)
            for ctype, tid in p['tracks']:
                ct = models.ContentType.get(name=ctype)
                role = ContentRole.MAIN if ctype != 'text' else ContentRole.SUBTITLE
                models.db.session.add(models.AdaptationSet(period=prd, track_id=tid, role=role.value,
                                                           content_type=ct))
        models.db.session.commit()
        return mps

    def _add_keys(self):
        models = self.models
        from dashlive.drm.playready import PlayReady
        seen = set()
        for mf in models.MediaFile.all():
            r = mf.representation
            if r is None or not r.encrypted:
                continue
            for kid in r.kids:
                if kid.raw in seen:
                    continue
                seen.add(kid.raw)
                if models.Key.get(hkid=kid.hex) is None:
                    key = binascii.b2a_hex(PlayReady.generate_content_key(kid.raw))
                    models.db.session.add(models.Key(hkid=kid.hex, hkey=key, computed=True))
        models.db.session.commit()

    def appctx(self):
        return self.app.app_context()

    def snapshot(self):
        db = self.models.db
        with self.app.app_context():
            db.session.remove()
            raw = db.engine.raw_connection()
            data = raw.driver_connection.serialize()
        blobs = {}
        for root, dirs, files in os.walk(self.blob_folder, followlinks=False):
            for f in files:
                p = Path(root) / f
                blobs[str(p.relative_to(self.blob_folder))] = p.read_bytes()
            for d in list(dirs):
                if (Path(root) / d).is_symlink():
                    dirs.remove(d)
                    blobs[str((Path(root) / d).relative_to(self.blob_folder)) + '/@'] = os.readlink(Path(root) / d)
                else:
                    blobs.setdefault(str((Path(root) / d).relative_to(self.blob_folder)) + '/', None)
        return (data, blobs, self.secrets.n)

    def restore(self, snap):
        data, blobs, n = snap
        db = self.models.db
        with self.app.app_context():
            db.session.remove()
            raw = db.engine.raw_connection()
            raw.driver_connection.deserialize(data)
        self.secrets.n = n
        # blob tree
        want = set(blobs)
        have = {}
        for root, dirs, files in os.walk(self.blob_folder, followlinks=False):
            for f in files:
                p = Path(root) / f
                have[str(p.relative_to(self.blob_folder))] = p
            for d in list(dirs):
                p = Path(root) / d
                if p.is_symlink():
                    dirs.remove(d)
                    have[str(p.relative_to(self.blob_folder)) + '/@'] = p
                else:
                    have[str(p.relative_to(self.blob_folder)) + '/'] = p
        for rel in sorted(have, key=len, reverse=True):
            if rel not in want:
                p = have[rel]
                if rel.endswith('/@') or not rel.endswith('/'):
                    p.unlink(missing_ok=True)
                else:
                    shutil.rmtree(p, ignore_errors=True)
        for rel in sorted(want, key=len):
            v = blobs[rel]
            if rel.endswith('/@'):
                p = self.blob_folder / rel[:-2]
                if not p.is_symlink():
                    os.symlink(v, p)
            elif rel.endswith('/'):
                (self.blob_folder / rel).mkdir(parents=True, exist_ok=True)
            else:
                p = self.blob_folder / rel
                p.parent.mkdir(parents=True, exist_ok=True)
                if rel not in have or p.read_bytes() != v:
                    p.write_bytes(v)

    def reset(self):
        self.restore(self.base_snapshot)

    def begin_item(self):
        """Called at the start of a work item: everything process-global is put in a fixed state."""
        from dashlive.mpeg.dash.adaptation_set import AdaptationSet
        AdaptationSet._NEXT_ID = 1000

    # -- requests --------------------------------------------------------
    def client(self):
        return self.app.test_client()

    def request(self, method, url, headers=None, data=None, json_body=None, client=None,
                timeout=10.0, content_type=None, base_url='http://localhost') -> Resp:
        c = client or self.app.test_client()
        self.last_exc = None
        t0 = _real_time()
        kwargs = {}
        if headers:
            kwargs['headers'] = headers
        if json_body is not None:
            kwargs['json'] = json_body
        elif data is not None:
            kwargs['data'] = data
        if content_type:
            kwargs['content_type'] = content_type

        def _alarm(signum, frame):
            raise _Timeout()
        # the budget is CPU time of this process (user + system): a loaded machine does not turn a slow request into an
        # "unbounded" one. Wall-clock time is a distant backstop only (a request that blocks without computing).
        old = signal.signal(signal.SIGALRM, _alarm)
        old_prof = signal.signal(signal.SIGPROF, _alarm)
        signal.setitimer(signal.ITIMER_PROF, timeout)
        signal.setitimer(signal.ITIMER_REAL, timeout * 30)
        try:
            r = c.open(url, method=method, base_url=base_url, **kwargs)
            body = r.get_data()
            resp = Resp(r.status_code, list(r.headers.items()), body, self.last_exc, _real_time() - t0)
            r.close()
        except _Timeout:
            resp = Resp(0, [], b'', ('UNBOUNDED', f'no answer within {timeout}s'), _real_time() - t0, True)
            # the interrupt may have hit SQLAlchemy mid-statement, which makes the pool replace the single
            # in-memory connection by a fresh (empty) one: put the base store back
            signal.setitimer(signal.ITIMER_PROF, 0)
            signal.setitimer(signal.ITIMER_REAL, 0)
            try:
                # never deserialize into a connection that may still have a statement in flight (libsqlite3 crashed
                # on that once): drop the connection first, the pool opens a fresh one
                with self.app.app_context():
                    try:
                        self.models.db.session.rollback()
                    except Exception:
                        pass
                    self.models.db.session.remove()
                    self.models.db.engine.dispose()
                self.restore(self.base_snapshot)
            except Exception:
                World._instance = None
        except Exception as e:  # exception escaped the WSGI app (PROPAGATE on or werkzeug-level)
            resp = Resp(599, [], b'', (type(e).__name__, traceback.format_exc()), _real_time() - t0)
        finally:
            signal.setitimer(signal.ITIMER_PROF, 0)
            signal.setitimer(signal.ITIMER_REAL, 0)
            signal.signal(signal.SIGALRM, old)
            signal.signal(signal.SIGPROF, old_prof)
        return resp

    def get(self, url, **kw) -> Resp:
        return self.request('GET', url, **kw)

    def login(self, role, client=None):
        """-> (client, login json). role in USERS."""
        c = client or self.app.test_client()
        uname, _, pw = USERS[role]
        r = self.request('POST', '/api/login', json_body={'username': uname, 'password': pw, 'rememberme': False},
                         client=c)
        js = r.json() if r.status == 200 else None
        return c, js

    def close(self):
        shutil.rmtree(self.tmp, ignore_errors=True)


def header(resp: Resp, name: str, default=None):
    name = name.lower()
    for k, v in resp.headers:
        if k.lower() == name:
            return v
    return default


def crash_signature(exc) -> str:
    """(exception type, innermost frame under the repo: file, function) - no line numbers."""
    if exc is None:
        return ''
    etype, tb = exc
    import re
    frames = re.findall(r'File "([^"]+)", line \d+, in (\S+)', tb)
    site = None
    for f, fn in frames:
        if '/dashlive/' in f:
            site = (f[f.index('/dashlive/') + 1:], fn)
    if site is None:
        site = ('?', frames[-1][1] if frames else '?')
    return f'{etype}@{site[0]}:{site[1]}'
