"""Independent ISO-BMFF box generators, written from the standards (ISO/IEC 14496-12, -14, -15, -30,
23001-7, 23009-1, ETSI TS 102 366 Annex F, PIFF 1.1) - not from dashlive.mpeg.mp4.

Each generator is a function `gen(c) -> bytes` (a complete box) whose every free choice goes through
the `Chooser` c: `c.pick(name, [default, alt1, ...])`. `enumerate_level(gen, L)` runs the generator
for every set of at most L deviations from the all-default assignment (deviation-bounded, exhaustive;
choice points that only exist under a deviation - e.g. the 64-bit fields of version 1 - are discovered
dynamically).

Only *legal* values are offered: reserved fields keep their mandated value, counts agree with the
lists they count, version/flags select the widths the standard prescribes.
"""
from __future__ import annotations

import struct

PIFF_SENC_UUID = bytes.fromhex('a2394f525a9b4f14a2446c427c648df4')


class Chooser:
    def __init__(self, overrides=None):
        self.overrides = dict(overrides or {})
        self.points = []            # [(name, n_alternatives)] in encounter order
        self.used = set()

    def pick(self, name, alts):
        self.points.append((name, len(alts)))
        i = self.overrides.get(name, 0)
        if name in self.overrides:
            self.used.add(name)
        return alts[i]


def enumerate_level(gen, level):
    """-> list of (label, bytes): every assignment with <= level deviations from the defaults."""
    out = []
    seen = set()

    def rec(overrides, budget, last_index):
        c = Chooser(overrides)
        data = gen(c)
        if set(overrides) - c.used:
            return          # an override whose point disappeared under a later deviation: not a distinct assignment
        key = tuple(sorted(overrides.items()))
        if key in seen:
            return
        seen.add(key)
        out.append((','.join(f'{k}#{v}' for k, v in key) or 'default', data))
        if budget == 0:
            return
        for idx, (name, n) in enumerate(c.points):
            if idx <= last_index or name in overrides:
                continue
            for alt in range(1, n):
                rec({**overrides, name: alt}, budget - 1, idx)
    rec({}, level, -1)
    return out


# ---------------------------------------------------------------------------
# primitive encoders
def u8(v): return struct.pack('>B', v)
def u16(v): return struct.pack('>H', v)
def u24(v): return struct.pack('>I', v)[1:]
def u32(v): return struct.pack('>I', v)
def u64(v): return struct.pack('>Q', v)
def s16(v): return struct.pack('>h', v)
def s32(v): return struct.pack('>i', v)


A8 = lambda d: [d, 0, 0xFF]
A16 = lambda d: [d, 0, 0xFFFF]
A32 = lambda d: [d, 0, 0xFFFFFFFF, 0x80000000]
A64 = lambda d: [d, 0, 0xFFFFFFFFFFFFFFFF, 0x100000000]
AS32 = lambda d: [d, 0, -1, 0x7FFFFFFF, -0x80000000]
AS16 = lambda d: [d, 0, -1, 0x7FFF]


def box(typ: bytes, payload: bytes, c: Chooser | None = None, name='') -> bytes:
    """Header forms: 32-bit size (default) or 64-bit largesize."""
    form = c.pick(f'{name}hdr', ['size32', 'size64']) if c is not None else 'size32'
    if typ[:4] == b'uuid':
        typ4, ext = b'uuid', typ[4:]
    else:
        typ4, ext = typ, b''
    if form == 'size64':
        return u32(1) + typ4 + u64(16 + len(ext) + len(payload)) + ext + payload
    return u32(8 + len(ext) + len(payload)) + typ4 + ext + payload


def fullbox(typ, version, flags, payload, c=None, name=''):
    return box(typ, u8(version) + u24(flags) + payload, c, name)


def cstr(s: str) -> bytes:
    return s.encode('utf-8') + b'\0'


STRINGS = ['urn:x', '', 'a', 'héllo 世']


# ---------------------------------------------------------------------------
# generators (one per registered box type)
def g_ftyp(c, typ=b'ftyp'):
    major = c.pick('major', [b'iso6', b'dash', b'\0\0\0\0'])
    minor = c.pick('minor', A32(1))
    n = c.pick('brands', [2, 0, 1, 3])
    brands = [b'iso6', b'dash', b'cmfc'][:n]
    return box(typ, major + u32(minor) + b''.join(brands), c)


def g_styp(c):
    return g_ftyp(c, b'styp')


MATRIX = [0x00010000, 0, 0, 0, 0x00010000, 0, 0, 0, 0x40000000]


def g_mvhd(c):
    v = c.pick('version', [0, 1])
    w, A = (u32, A32) if v == 0 else (u64, A64)
    p = w(c.pick('creation', A(3600)))
    p += w(c.pick('modification', A(7200)))
    p += u32(c.pick('timescale', A32(1000)))
    p += w(c.pick('duration', A(60000)))
    p += s32(c.pick('rate', AS32(0x00010000)))
    p += s16(c.pick('volume', AS16(0x0100)))
    p += u16(0) + u32(0) + u32(0)
    m = list(MATRIX)
    m[c.pick('matrix_idx', [0, 8])] = c.pick('matrix_val', AS32(0x00010000))
    p += b''.join(s32(x) for x in m)
    p += b'\0' * 24
    p += u32(c.pick('next_track', A32(2)))
    return fullbox(b'mvhd', v, 0, p, c)


def g_tkhd(c):
    v = c.pick('version', [0, 1])
    w, A = (u32, A32) if v == 0 else (u64, A64)
    flags = c.pick('flags', [7, 1, 0, 0xF])
    p = w(c.pick('creation', A(3600)))
    p += w(c.pick('modification', A(7200)))
    p += u32(c.pick('track_id', A32(1)))
    p += u32(0)
    p += w(c.pick('duration', A(0)))
    p += u32(0) + u32(0)
    p += s16(c.pick('layer', AS16(0)))
    p += s16(c.pick('alternate_group', AS16(0)))
    p += s16(c.pick('volume', AS16(0)))
    p += u16(0)
    # identity, 90 degree rotation (a -1.0 entry), mirror, and the extremes of the signed 16.16 / 2.30 entries
    m = c.pick('matrix', [MATRIX, [0, 0x00010000, 0, -0x00010000, 0, 0, 720 << 16, 0, 0x40000000],
                          [-0x00010000, 0, 0, 0, 0x00010000, 0, 1280 << 16, 0, 0x40000000],
                          [0x7FFFFFFF, -0x80000000, -1, 1, 0, 0x7FFFFFFF, -0x80000000, -1, 0x7FFFFFFF]])
    p += b''.join(s32(x) for x in m)
    p += u32(c.pick('width', A32(1280 << 16)))
    p += u32(c.pick('height', A32(720 << 16)))
    return fullbox(b'tkhd', v, flags, p, c)


def lang(code: str) -> int:
    return ((ord(code[0]) - 0x60) << 10) | ((ord(code[1]) - 0x60) << 5) | (ord(code[2]) - 0x60)


def g_mdhd(c):
    v = c.pick('version', [0, 1])
    w, A = (u32, A32) if v == 0 else (u64, A64)
    p = w(c.pick('creation', A(3600)))
    p += w(c.pick('modification', A(7200)))
    p += u32(c.pick('timescale', A32(48000)))
    p += w(c.pick('duration', A(0)))
    p += u16(lang(c.pick('language', ['und', 'eng', 'zzz', 'aaa'])))
    p += u16(0)
    return fullbox(b'mdhd', v, 0, p, c)


def g_hdlr(c):
    p = u32(0) + c.pick('handler', [b'vide', b'soun', b'text', b'subt']) + b'\0' * 12
    p += cstr(c.pick('name', ['VideoHandler'] + STRINGS[1:]))
    return fullbox(b'hdlr', 0, 0, p, c)


def g_mehd(c):
    v = c.pick('version', [0, 1])
    p = (u32(c.pick('duration', A32(60000))) if v == 0 else u64(c.pick('duration', A64(60000))))
    return fullbox(b'mehd', v, 0, p, c)


def g_trex(c):
    p = u32(c.pick('track_id', A32(1)))
    p += u32(c.pick('sdi', A32(1)))
    p += u32(c.pick('duration', A32(1024)))
    p += u32(c.pick('size', A32(0)))
    p += u32(c.pick('flags_', A32(0x01010000)))
    return fullbox(b'trex', 0, 0, p, c)


def g_mfhd(c):
    return fullbox(b'mfhd', 0, 0, u32(c.pick('sequence', A32(7))), c)


def g_tfhd(c):
    flags = 0
    p = u32(c.pick('track_id', A32(1)))
    if c.pick('f_base', [False, True]):
        flags |= 0x01
        p += u64(c.pick('base_data_offset', A64(1234)))
    if c.pick('f_sdi', [False, True]):
        flags |= 0x02
        p += u32(c.pick('sdi', A32(1)))
    if c.pick('f_dur', [True, False]):
        flags |= 0x08
        p += u32(c.pick('default_duration', A32(1024)))
    if c.pick('f_size', [False, True]):
        flags |= 0x10
        p += u32(c.pick('default_size', A32(100)))
    if c.pick('f_flags', [False, True]):
        flags |= 0x20
        p += u32(c.pick('default_flags', A32(0x01010000)))
    if c.pick('f_empty', [False, True]):
        flags |= 0x010000
    if c.pick('f_moof', [True, False]):
        flags |= 0x020000
    return fullbox(b'tfhd', 0, flags, p, c)


def g_tfdt(c):
    v = c.pick('version', [1, 0])
    p = u32(c.pick('time', A32(90000))) if v == 0 else u64(c.pick('time', A64(90000)))
    return fullbox(b'tfdt', v, 0, p, c)


def g_trun(c):
    v = c.pick('version', [0, 1])
    n = c.pick('samples', [2, 0, 1, 3])
    flags = 0
    p = u32(n)
    if c.pick('f_offset', [True, False]):
        flags |= 0x01
        p += s32(c.pick('data_offset', AS32(120)))
    if c.pick('f_first', [False, True]):
        flags |= 0x04
        p += u32(c.pick('first_flags', A32(0x02000000)))
    fd = c.pick('f_dur', [True, False])
    fs = c.pick('f_size', [True, False])
    # 14496-12 8.8.8: with first-sample-flags-present, sample-flags shall not be present
    ff = c.pick('f_flags', [False, True]) and not (flags & 0x04)
    fc = c.pick('f_cto', [False, True])
    flags |= (0x100 if fd else 0) | (0x200 if fs else 0) | (0x400 if ff else 0) | (0x800 if fc else 0)
    for i in range(n):
        if fd:
            p += u32(c.pick(f's{i}.dur', A32(1024)) if i == 0 else 1024)
        if fs:
            p += u32(c.pick(f's{i}.size', A32(40)) if i == 0 else 40 + i)
        if ff:
            p += u32(c.pick(f's{i}.flags', A32(0x01010000)) if i == 0 else 0x01010000)
        if fc:
            if v == 0:
                p += u32(c.pick(f's{i}.cto', A32(512)) if i == 0 else 512)
            else:
                p += s32(c.pick(f's{i}.cto', AS32(-512)) if i == 0 else -512)
    return fullbox(b'trun', v, flags, p, c)


def g_saiz(c):
    flags = 0
    p = b''
    if c.pick('f_type', [False, True]):
        flags = 1
        p += c.pick('aux_type', [b'cenc', b'cbcs']) + u32(c.pick('aux_param', A32(0)))
    d = c.pick('default_size', [8, 0, 16, 255])
    n = c.pick('samples', [2, 0, 1, 3])
    p += u8(d) + u32(n)
    if d == 0:
        p += bytes([c.pick('size0', [16, 0, 255])] + [22] * (n - 1))[:n]
    return fullbox(b'saiz', 0, flags, p, c)


def g_saio(c):
    v = c.pick('version', [0, 1])
    flags = 0
    p = b''
    if c.pick('f_type', [False, True]):
        flags = 1
        p += c.pick('aux_type', [b'cenc', b'cbcs']) + u32(c.pick('aux_param', A32(0)))
    n = c.pick('entries', [1, 0, 2])
    p += u32(n)
    for i in range(n):
        p += (u32(c.pick(f'o{i}', A32(300))) if v == 0 else u64(c.pick(f'o{i}', A64(300))))
    return fullbox(b'saio', v, flags, p, c)


def senc_payload(c, iv_size, allow_piff_override=False):
    n = c.pick('samples', [2, 0, 1, 3])
    sub = c.pick('subsamples', [False, True])
    p = u32(n)
    for i in range(n):
        p += bytes([(17 * i + j + c.pick('iv0', [1, 0, 255])) & 0xFF for j in range(iv_size)])
        if sub:
            k = c.pick(f's{i}.subs', [2, 0, 1]) if i == 0 else 1
            p += u16(k)
            for j in range(k):
                p += u16(c.pick(f's{i}.{j}.clear', A16(9)) if (i, j) == (0, 0) else 9)
                p += u32(c.pick(f's{i}.{j}.enc', A32(31)) if (i, j) == (0, 0) else 31)
    return (2 if sub else 0), p


def g_senc(c, iv_size=8):
    flags, p = senc_payload(c, iv_size)
    return fullbox(b'senc', 0, flags, p, c)


def g_piff_senc(c, iv_size=8):
    flags, p = senc_payload(c, iv_size)
    if c.pick('piff_override', [False, True]):
        flags |= 1
        p = u24(c.pick('alg', [1, 0, 2])) + u8(iv_size) + bytes(range(16)) + p
    return fullbox(b'uuid' + PIFF_SENC_UUID, 0, flags, p, c)


def g_tenc(c):
    v = c.pick('version', [0, 1])
    p = u8(0)
    p += u8(0) if v == 0 else u8(c.pick('pattern', [0x19, 0x00, 0xFF]))
    prot = c.pick('protected', [1, 0])
    iv = c.pick('iv_size', [8, 16, 0]) if prot else 0
    p += u8(prot) + u8(iv)
    p += c.pick('kid', [bytes(range(16)), b'\0' * 16, b'\xff' * 16, HEXLOOK])
    if prot == 1 and iv == 0:
        civ = c.pick('const_iv', [8, 16])
        p += u8(civ) + bytes(range(1, civ + 1))
    return fullbox(b'tenc', v, 0, p, c)


SYSTEM_IDS = [bytes.fromhex('9a04f07998404286ab92e65be0885f95'), bytes.fromhex('1077efecc0b24d02ace33c1e52e2fb4b'),
              b'\0' * 16, b'0x' + b'0123456789abcd']


HEXLOOK = b'0x' + b'0123456789abcd'


def g_pssh(c):
    v = c.pick('version', [0, 1])
    p = c.pick('system_id', SYSTEM_IDS)
    if v == 1:
        n = c.pick('kids', [1, 0, 2, 'hexlook'])
        if n == 'hexlook':
            # binary that reads like text: the ASCII characters "0x" followed by hexadecimal digits
            p += u32(1) + HEXLOOK
        else:
            p += u32(n) + b''.join(bytes([i + 1] * 16) for i in range(n))
    data = c.pick('data', [b'\x08\x01\x12\x10' + bytes(16), b'', b'\xff', HEXLOOK + HEXLOOK, b'0xzz'])
    p += u32(len(data)) + data
    return fullbox(b'pssh', v, 0, p, c)


def g_sidx(c):
    v = c.pick('version', [0, 1])
    p = u32(c.pick('reference_id', A32(1))) + u32(c.pick('timescale', A32(90000)))
    if v == 0:
        p += u32(c.pick('ept', A32(0))) + u32(c.pick('first_offset', A32(0)))
    else:
        p += u64(c.pick('ept', A64(0))) + u64(c.pick('first_offset', A64(0)))
    n = c.pick('references', [2, 0, 1, 3])
    p += u16(0) + u16(n)
    for i in range(n):
        rt = c.pick(f'r{i}.type', [0, 1]) if i == 0 else 0
        rs = c.pick(f'r{i}.size', [5000, 0, 0x7FFFFFFF]) if i == 0 else 5000 + i
        p += u32((rt << 31) | rs)
        p += u32(c.pick(f'r{i}.duration', A32(180000)) if i == 0 else 180000)
        sap = c.pick(f'r{i}.sap', [1, 0]) if i == 0 else 1
        st = c.pick(f'r{i}.sap_type', [1, 0, 7]) if i == 0 else 1
        sd = c.pick(f'r{i}.sap_delta', [0, 1, 0x0FFFFFFF]) if i == 0 else 0
        p += u32((sap << 31) | (st << 28) | sd)
    return fullbox(b'sidx', v, 0, p, c)


def g_emsg(c):
    v = c.pick('version', [0, 1])
    scheme = c.pick('scheme', ['urn:scte:scte35:2013:bin'] + STRINGS[1:])
    value = c.pick('value', ['1'] + STRINGS[1:])
    ts = c.pick('timescale', A32(90000))
    dur = c.pick('duration', A32(900))
    eid = c.pick('id', A32(5))
    data = c.pick('data', [b'\xfc\x30\x11', b'', b'\0', b'x' * 300])
    if v == 0:
        p = cstr(scheme) + cstr(value) + u32(ts) + u32(c.pick('delta', A32(45))) + u32(dur) + u32(eid) + data
    else:
        p = u32(ts) + u64(c.pick('time', A64(1 << 33))) + u32(dur) + u32(eid) + cstr(scheme) + cstr(value) + data
    return fullbox(b'emsg', v, 0, p, c)


def g_schm(c):
    p = c.pick('scheme', [b'cenc', b'cbcs', b'piff']) + u32(c.pick('scheme_version', A32(0x00010000)))
    flags = 0
    if c.pick('f_uri', [False, True]):
        flags = 1
        p += cstr(c.pick('uri', ['http://example/uri', '', 'a']))
    return fullbox(b'schm', 0, flags, p, c)


def g_frma(c):
    return box(b'frma', c.pick('format', [b'avc1', b'mp4a', b'hev1', b'\0\0\0\0']), c)


def g_btrt(c):
    return box(b'btrt', u32(c.pick('buffer', A32(6000))) + u32(c.pick('max', A32(900000))) + u32(c.pick('avg', A32(800000))), c)


def g_pasp(c):
    return box(b'pasp', u32(c.pick('h', A32(1))) + u32(c.pick('v', A32(1))), c)


def g_mime(c):
    return fullbox(b'mime', 0, 0, cstr(c.pick('content_type', ['image/png'] + STRINGS[1:])), c)


def g_vttC(c):
    return box(b'vttC', c.pick('config', ['WEBVTT', 'WEBVTT\n\nNOTE x', '']).encode('utf-8'), c)


def g_unknown(c):
    typ = c.pick('type', [b'zzzz', b'free', b'skip', b'\xa9nam'])
    return box(typ, c.pick('payload', [b'abc', b'', b'\0' * 40, HEXLOOK, b'0x1']), c)


def g_unknown_uuid(c):
    return box(b'uuid' + c.pick('uuid', [bytes(range(16)), b'\xff' * 16]), c.pick('payload', [b'abc', b'', b'\0' * 40]), c)


# --- codec configuration ----------------------------------------------------
SPS = bytes.fromhex('6742c01ed9008025b01100000300010000030032e0a0002625a000989681f18324')
# a syntactically valid baseline-profile SPS is not required by 14496-15 for avcC to be well formed (the NAL
# unit is opaque at this layer); the fixtures' own SPS/PPS are used by the fixture pass.
PPS = bytes.fromhex('68cb8cb2')


def g_avcC(c, sps_list=None, pps_list=None):
    profile = c.pick('profile', [66, 77, 88])           # profiles without the High-profile extension fields
    p = u8(1) + u8(profile) + u8(c.pick('compat', A8(0xC0))) + u8(c.pick('level', A8(30)))
    p += u8(0xFC | c.pick('length_size_minus_one', [3, 0, 1]))
    nsps = c.pick('sps', [1, 0, 2])
    p += u8(0xE0 | nsps)
    for i in range(nsps):
        s = (sps_list or [SPS, SPS])[i]
        p += u16(len(s)) + s
    npps = c.pick('pps', [1, 0, 2])
    p += u8(npps)
    for i in range(npps):
        s = (pps_list or [PPS, PPS])[i]
        p += u16(len(s)) + s
    return box(b'avcC', p, c)


def g_hvcC(c):
    p = u8(1)
    p += u8((c.pick('profile_space', [0, 3]) << 6) | (c.pick('tier', [0, 1]) << 5) | c.pick('profile_idc', [1, 2, 31]))
    p += u32(c.pick('compat', A32(0x60000000)))
    p += c.pick('constraints', [bytes.fromhex('900000000000'), b'\0' * 6, b'\xff' * 6])
    p += u8(c.pick('level', A8(93)))
    p += u16(0xF000 | c.pick('min_spatial', [0, 0xFFF]))
    p += u8(0xFC | c.pick('parallelism', [0, 3]))
    p += u8(0xFC | c.pick('chroma', [1, 0, 3]))
    p += u8(0xF8 | c.pick('luma_depth', [0, 7]))
    p += u8(0xF8 | c.pick('chroma_depth', [0, 7]))
    p += u16(c.pick('avg_frame_rate', A16(0)))
    p += u8((c.pick('const_fr', [0, 3]) << 6) | (c.pick('num_layers', [1, 7]) << 3) | (c.pick('nested', [1, 0]) << 2) |
            c.pick('length_size_minus_one', [3, 0, 1]))
    n = c.pick('arrays', [3, 0, 1])
    p += u8(n)
    for i, nal_type in enumerate([32, 33, 34][:n]):
        comp = c.pick(f'a{i}.complete', [1, 0]) if i == 0 else 1
        p += u8((comp << 7) | nal_type)
        k = c.pick(f'a{i}.nalus', [1, 0, 2]) if i == 0 else 1
        p += u16(k)
        for j in range(k):
            nal = bytes([nal_type << 1, 1]) + bytes(range(10 + i + j))
            p += u16(len(nal)) + nal
    return box(b'hvcC', p, c)


def descr(tag, payload, form):
    n = len(payload)
    if form == 'short' and n < 128:
        size = bytes([n])
    else:
        size = bytes([0x80 | ((n >> 21) & 0x7F), 0x80 | ((n >> 14) & 0x7F), 0x80 | ((n >> 7) & 0x7F), n & 0x7F])
    return bytes([tag]) + size + payload


def g_esds(c):
    form = c.pick('size_form', ['padded', 'short'])
    # AudioSpecificConfig: AAC-LC (2) / HE-AAC (5, explicit SBR signalling), frequency index, channel configuration
    aot = c.pick('aot', [2, 5])
    # index 15 is the escape form: the frequency follows as 24 explicit bits, whether or not the table has an entry for it
    fi = c.pick('freq_index', [3, 4, 0, 11, (15, 48000), (15, 23000), (15, 7350)])
    ch = c.pick('channels', [2, 1, 6])
    fbits = [(fi, 4)] if not isinstance(fi, tuple) else [(15, 4), (fi[1], 24)]
    if aot == 2:
        fields = [(aot, 5)] + fbits + [(ch, 4), (0, 3)]
    else:
        # aot=5: freq idx, channels, extension freq idx, underlying aot=2, GASpecificConfig 3 bits 0
        fields = [(5, 5)] + fbits + [(ch, 4), (3, 4), (2, 5), (0, 3)]
    nb = sum(wd for _, wd in fields)
    if nb % 8:
        fields.append((0, 8 - nb % 8))
    asc = bits(*fields)
    # backward compatible SBR signalling appends a sync extension (0x2b7, aot 5, sbrPresentFlag, frequency index)
    asc += c.pick('asc_tail', [b'', b'\x56\xe5\x00', b'\x56\xe5\xa5\x48\x80'])
    dsi = descr(5, asc, form)
    dcd = u8(c.pick('object_type', [0x40, 0x67]))
    dcd += u8((c.pick('stream_type', [5, 4]) << 2) | (c.pick('upstream', [0, 1]) << 1) | 1)
    dcd += u24(c.pick('buffer_size', [6144, 0, 0xFFFFFF]))
    dcd += u32(c.pick('max_bitrate', A32(128000))) + u32(c.pick('avg_bitrate', A32(96000)))
    dcd = descr(4, dcd + dsi, form)
    sl = descr(6, u8(2), form)
    es = u16(c.pick('es_id', A16(1)))
    flags = 0
    tail = b''
    if c.pick('f_depends', [False, True]):
        flags |= 0x80
        tail += u16(c.pick('depends_on', A16(3)))
    if c.pick('f_ocr', [False, True]):
        flags |= 0x20
        ocr = u16(c.pick('ocr_es_id', A16(4)))
    else:
        ocr = b''
    flags |= c.pick('priority', [0, 31])
    es += u8(flags) + tail + ocr
    # extension descriptors (user private tags) may follow; a large one needs a multi-byte sizeOfInstance
    # sizes around the 7-bit group boundaries: 127 is the largest one-byte size, 128 the smallest two-byte size
    ext = c.pick('extension', [b'', descr(0x80, bytes(range(200)), form), descr(0x80, b'', form), descr(0x80, bytes(127), form),
                               descr(0x80, bytes(128), form), descr(0x80, bytes(16383), form), descr(0x80, bytes(16384), form)])
    return fullbox(b'esds', 0, 0, descr(3, es + dcd + sl + ext, form), c)


def bits(*fields):
    v = n = 0
    for val, width in fields:
        assert 0 <= val < (1 << width), (val, width)
        v = (v << width) | val
        n += width
    assert n % 8 == 0, n
    return v.to_bytes(n // 8, 'big')


def g_dac3(c):
    return box(b'dac3', bits((c.pick('fscod', [0, 1, 2]), 2), (c.pick('bsid', [8, 6]), 5), (c.pick('bsmod', [0, 7]), 3),
                             (c.pick('acmod', [7, 2, 0]), 3), (c.pick('lfeon', [1, 0]), 1),
                             (c.pick('bit_rate_code', [15, 0, 18]), 5), (0, 5)), c)


def g_dec3(c):
    n = c.pick('substreams', [1, 2])
    f = [(c.pick('data_rate', [192, 0, 8191]), 13), (n - 1, 3)]
    for i in range(n):
        dep = c.pick(f'i{i}.num_dep_sub', [0, 1]) if i == 0 else 0
        f += [(c.pick(f'i{i}.fscod', [0, 2]) if i == 0 else 0, 2), (16, 5), (0, 1), (c.pick(f'i{i}.asvc', [0, 1]) if i == 0 else 0, 1),
              (c.pick(f'i{i}.bsmod', [0, 7]) if i == 0 else 0, 3), (c.pick(f'i{i}.acmod', [7, 2]) if i == 0 else 7, 3),
              (c.pick(f'i{i}.lfeon', [1, 0]) if i == 0 else 1, 1), (0, 3), (dep, 4)]
        if dep:
            f.append((c.pick(f'i{i}.chan_loc', [1, 0x1FF]), 9))
        else:
            f.append((0, 1))
    # the Dolby Atmos (JOC) extension: 7 reserved bits, flag_ec3_extension_type_a, complexity_index_type_a
    ext = c.pick('joc_extension', [None, (1, 16), (0, 0), (1, 255)])
    if ext is not None:
        f += [(0, 7), (ext[0], 1), (ext[1], 8)]
    return box(b'dec3', bits(*f), c)


# --- sample entries -----------------------------------------------------------
def visual_entry(c, typ, children):
    p = b'\0' * 6 + u16(c.pick('dri', A16(1)))
    p += u16(0) + u16(0) + b'\0' * 12
    p += u16(c.pick('width', A16(1280))) + u16(c.pick('height', A16(720)))
    p += u32(c.pick('hres', A32(0x00480000))) + u32(c.pick('vres', A32(0x00480000)))
    p += u32(0) + u16(c.pick('frame_count', A16(1)))
    name = c.pick('compressor', ['', 'AVC Coding', 'x' * 31])
    nb = name.encode('ascii')
    p += bytes([len(nb)]) + nb + b'\0' * (31 - len(nb))
    p += u16(c.pick('depth', A16(0x18))) + s16(-1)
    return box(typ, p + children, c, name='entry.')


def audio_entry(c, typ, children):
    p = b'\0' * 6 + u16(c.pick('dri', A16(1)))
    p += u32(0) + u32(0)
    p += u16(c.pick('channels', A16(2))) + u16(c.pick('sample_size', A16(16)))
    p += u16(0) + u16(0)
    p += u32(c.pick('sample_rate', [48000 << 16, 0, 44100 << 16, 0xFFFF0000]))
    return box(typ, p + children, c, name='entry.')


def sub(c, prefix):
    """A chooser view whose point names are prefixed (nested boxes)."""
    class _Sub:
        def pick(self, name, alts):
            return c.pick(prefix + name, alts)
    return _Sub()


def sinf(c, fmt):
    schi = box(b'schi', g_tenc(sub(c, 'tenc.')))
    return box(b'sinf', g_frma_fixed(fmt) + g_schm(sub(c, 'schm.')) + schi)


def g_frma_fixed(fmt):
    return box(b'frma', fmt)


def g_avc1(c, typ=b'avc1'):
    ch = g_avcC(sub(c, 'avcC.'))
    if c.pick('with_pasp', [False, True]):
        ch += g_pasp(sub(c, 'pasp.'))
    if c.pick('with_btrt', [False, True]):
        ch += g_btrt(sub(c, 'btrt.'))
    return visual_entry(c, typ, ch)


def g_avc3(c):
    return g_avc1(c, b'avc3')


def g_hev1(c, typ=b'hev1'):
    ch = g_hvcC(sub(c, 'hvcC.'))
    if c.pick('with_btrt', [False, True]):
        ch += g_btrt(sub(c, 'btrt.'))
    return visual_entry(c, typ, ch)


def g_hvc1(c):
    return g_hev1(c, b'hvc1')


def g_encv(c):
    inner = c.pick('original', [b'avc1', b'hev1'])
    ch = g_avcC(sub(c, 'avcC.')) if inner == b'avc1' else g_hvcC(sub(c, 'hvcC.'))
    return visual_entry(c, b'encv', ch + sinf(c, inner))


def g_mp4a(c, typ=b'mp4a'):
    ch = g_esds(sub(c, 'esds.'))
    if c.pick('with_btrt', [False, True]):
        ch += g_btrt(sub(c, 'btrt.'))
    return audio_entry(c, typ, ch)


def g_enca(c):
    inner = c.pick('original', [b'mp4a', b'ec-3'])
    ch = g_esds(sub(c, 'esds.')) if inner == b'mp4a' else g_dec3(sub(c, 'dec3.'))
    return audio_entry(c, b'enca', ch + sinf(c, inner))


def g_ec3(c):
    return audio_entry(c, b'ec-3', g_dec3(sub(c, 'dec3.')))


def g_ac3(c):
    return audio_entry(c, b'ac-3', g_dac3(sub(c, 'dac3.')))


def g_stpp(c):
    p = b'\0' * 6 + u16(c.pick('dri', A16(1)))
    p += cstr(c.pick('namespace', ['http://www.w3.org/ns/ttml', 'a', 'n1 n2']))
    p += cstr(c.pick('schema_location', ['', 'http://x/y.xsd']))
    p += cstr(c.pick('mime_types', ['', 'image/png']))
    ch = b''
    if c.pick('with_mime', [False, True]):
        ch += g_mime(sub(c, 'mime.'))
    if c.pick('with_btrt', [False, True]):
        ch += g_btrt(sub(c, 'btrt.'))
    return box(b'stpp', p + ch, c, name='entry.')


def g_wvtt(c):
    p = b'\0' * 6 + u16(c.pick('dri', A16(1)))
    ch = g_vttC(sub(c, 'vttC.'))
    if c.pick('with_btrt', [False, True]):
        ch += g_btrt(sub(c, 'btrt.'))
    return box(b'wvtt', p + ch, c, name='entry.')


def g_stsd(c):
    kind = c.pick('entry', ['avc1', 'mp4a', 'stpp', 'none', 'two'])
    entries = {'avc1': [g_avc1], 'mp4a': [g_mp4a], 'stpp': [g_stpp], 'none': [], 'two': [g_avc1, g_hev1]}[kind]
    body = b''.join(g(sub(c, f'e{i}.')) for i, g in enumerate(entries))
    return fullbox(b'stsd', 0, 0, u32(len(entries)) + body, c)


# --- containers ---------------------------------------------------------------
def g_moov(c):
    """moov with one trak down to the sample entry, mvex and (optionally) pssh boxes."""
    kind = c.pick('track', ['video', 'audio', 'text', 'encrypted-video', 'encrypted-audio'])
    entry = {'video': g_avc1, 'audio': g_mp4a, 'text': g_stpp, 'encrypted-video': g_encv, 'encrypted-audio': g_enca}[kind]
    stsd = fullbox(b'stsd', 0, 0, u32(1) + entry(sub(c, 'entry.')))
    empty = lambda t: fullbox(t, 0, 0, u32(0))
    stbl = box(b'stbl', stsd + empty(b'stts') + empty(b'stsc') + fullbox(b'stsz', 0, 0, u32(0) + u32(0)) + empty(b'stco'))
    mh = {'video': fullbox(b'vmhd', 0, 1, b'\0' * 8), 'audio': fullbox(b'smhd', 0, 0, b'\0' * 4),
          'text': fullbox(b'sthd', 0, 0, b'')}[kind.split('-')[-1]]
    dinf = box(b'dinf', fullbox(b'dref', 0, 0, u32(1) + fullbox(b'url ', 0, 1, b'')))
    minf = box(b'minf', mh + dinf + stbl)
    mdia = box(b'mdia', g_mdhd(sub(c, 'mdhd.')) + g_hdlr(sub(c, 'hdlr.')) + minf)
    trak = box(b'trak', g_tkhd(sub(c, 'tkhd.')) + mdia, c, name='trak.')
    mvex = b''
    if c.pick('with_mehd', [False, True]):
        mvex += g_mehd(sub(c, 'mehd.'))
    mvex = box(b'mvex', mvex + g_trex(sub(c, 'trex.')))
    pssh = b''
    for i in range(c.pick('pssh_count', [0, 1, 2])):
        pssh += g_pssh(sub(c, f'pssh{i}.'))
    udta = box(b'udta', box(b'zzzz', b'hello')) if c.pick('with_udta', [False, True]) else b''
    return box(b'moov', g_mvhd(sub(c, 'mvhd.')) + trak + mvex + pssh + udta, c, name='moov.')


def payload_of(n):
    return bytes((i * 7 + 3) & 0xFF for i in range(n))


def g_fragment(c, encrypted=False, iv_size=8):
    """[styp] [sidx] [emsg] moof(mfhd, traf(tfhd, tfdt, trun, [saiz, saio, senc|piff])) mdat with consistent
    offsets (data_offset, saio offset, explicit base_data_offset, sidx referenced size)."""
    n = c.pick('samples', [2, 1, 3])
    sizes = [40 + i for i in range(n)]
    pre = b''
    if c.pick('with_styp', [False, True]):
        pre += g_styp(sub(c, 'styp.'))
    with_sidx = c.pick('with_sidx', [False, True])
    if c.pick('with_emsg', [False, True]):
        pre += g_emsg(sub(c, 'emsg.'))
    mfhd = g_mfhd(sub(c, 'mfhd.'))
    tfdt = g_tfdt(sub(c, 'tfdt.'))
    explicit_base = c.pick('tfhd.f_base', [False, True])
    t_sdi = c.pick('tfhd.f_sdi', [False, True])
    t_dur = c.pick('tfhd.f_dur', [True, False])
    t_size = c.pick('tfhd.f_size', [False, True])
    t_flags = c.pick('tfhd.f_flags', [False, True])
    r_ver = c.pick('trun.version', [0, 1])
    r_first = c.pick('trun.f_first', [False, True])
    r_dur = c.pick('trun.f_dur', [False, True]) or not t_dur
    r_size = c.pick('trun.f_size', [True, False]) or not t_size
    r_flags = c.pick('trun.f_flags', [False, True]) and not r_first     # 14496-12 8.8.8: mutually exclusive
    r_cto = c.pick('trun.f_cto', [False, True])
    dur0 = c.pick('trun.s0.dur', A32(1024)) if r_dur else None
    flags0 = c.pick('trun.s0.flags', A32(0x01010000)) if r_flags else None
    cto0 = (c.pick('trun.s0.cto', A32(512)) if r_ver == 0 else c.pick('trun.s0.cto', AS32(-512))) if r_cto else None
    subs = encrypted and c.pick('subsamples', [True, False])
    piff = encrypted and c.pick('piff', [False, True])
    saiz_default = encrypted and c.pick('saiz.default', [True, False])
    saio_ver = c.pick('saio.version', [0, 1]) if encrypted else 0
    aux_typed = encrypted and c.pick('aux.typed', [False, True])
    per_sample_aux = (iv_size + (2 + 6 if subs else 0)) if encrypted else 0
    sidx_size = 0

    def build(moof_pos, moof_len, first_aux):
        tf = 0x020000 if not explicit_base else 0
        tp = u32(1)
        if explicit_base:
            tf |= 0x01
            tp += u64(moof_pos)
        if t_sdi:
            tf |= 0x02
            tp += u32(1)
        if t_dur:
            tf |= 0x08
            tp += u32(1024)
        if t_size:
            tf |= 0x10
            tp += u32(sizes[0])
        if t_flags:
            tf |= 0x20
            tp += u32(0x01010000)
        tfhd = fullbox(b'tfhd', 0, tf, tp)
        rf = 0x01 | (0x04 if r_first else 0) | (0x100 if r_dur else 0) | (0x200 if r_size else 0) | \
            (0x400 if r_flags else 0) | (0x800 if r_cto else 0)
        rp = u32(n) + s32(moof_len + 8)
        if r_first:
            rp += u32(0x02000000)
        for i in range(n):
            if r_dur:
                rp += u32(dur0 if i == 0 else 1024)
            if r_size:
                rp += u32(sizes[i])
            if r_flags:
                rp += u32(flags0 if i == 0 else 0x01010000)
            if r_cto:
                rp += (u32(cto0 if i == 0 else 512) if r_ver == 0 else s32(cto0 if i == 0 else -512))
        trun = fullbox(b'trun', r_ver, rf, rp)
        traf = tfhd + tfdt + trun
        if encrypted:
            at = (b'cenc' + u32(0)) if aux_typed else b''
            if saiz_default:
                traf += fullbox(b'saiz', 0, 1 if aux_typed else 0, at + u8(per_sample_aux) + u32(n))
            else:
                traf += fullbox(b'saiz', 0, 1 if aux_typed else 0, at + u8(0) + u32(n) + bytes([per_sample_aux] * n))
            traf += fullbox(b'saio', saio_ver, 1 if aux_typed else 0,
                            at + u32(1) + (u32(first_aux) if saio_ver == 0 else u64(first_aux)))
            sp = u32(n)
            for i in range(n):
                sp += bytes([(i * 16 + j) & 0xFF for j in range(iv_size)])
                if subs:
                    sp += u16(1) + u16(8) + u32(sizes[i] - 8)
            senc_pos = 8 + len(mfhd) + 8 + len(traf)          # offset of the senc box inside moof
            if piff:
                traf += fullbox(b'uuid' + PIFF_SENC_UUID, 0, 2 if subs else 0, sp)
                first = senc_pos + 8 + 16 + 4 + 4
            else:
                traf += fullbox(b'senc', 0, 2 if subs else 0, sp)
                first = senc_pos + 8 + 4 + 4
        else:
            first = 0
        moof = box(b'moof', mfhd + box(b'traf', traf))
        return moof, first
    moof, first_aux = build(0, 0, 0)
    mdat = box(b'mdat', payload_of(sum(sizes)))
    sidx = b''
    if with_sidx:
        def mk(size):
            return fullbox(b'sidx', 1, 0, u32(1) + u32(1000) + u64(0) + u64(0) + u16(0) + u16(1) + u32(size) +
                           u32(1024 * n) + u32(0x90000000))
        sidx = mk(len(moof) + len(mdat))
    moof_pos = len(pre) + len(sidx)
    # saio offsets are relative to the base data offset (moof start, or the explicit base which is the moof start)
    moof, first_aux = build(moof_pos, len(moof), first_aux)
    return pre + sidx + moof + mdat


GENERATORS = {
    'ftyp': g_ftyp, 'styp': g_styp, 'mvhd': g_mvhd, 'tkhd': g_tkhd, 'mdhd': g_mdhd, 'hdlr': g_hdlr, 'mehd': g_mehd,
    'trex': g_trex, 'mfhd': g_mfhd, 'tfhd': g_tfhd, 'tfdt': g_tfdt, 'trun': g_trun, 'saiz': g_saiz, 'saio': g_saio,
    'senc': g_senc, 'UUID(a2394f525a9b4f14a2446c427c648df4)': g_piff_senc, 'tenc': g_tenc, 'pssh': g_pssh, 'sidx': g_sidx,
    'emsg': g_emsg, 'schm': g_schm, 'frma': g_frma, 'btrt': g_btrt, 'pasp': g_pasp, 'mime': g_mime, 'vttC': g_vttC,
    'avcC': g_avcC, 'hvcC': g_hvcC, 'esds': g_esds, 'dac3': g_dac3, 'dec3': g_dec3,
    'avc1': g_avc1, 'avc3': g_avc3, 'hev1': g_hev1, 'hvc1': g_hvc1, 'encv': g_encv, 'mp4a': g_mp4a, 'enca': g_enca,
    'ec-3': g_ec3, 'ac-3': g_ac3, 'stpp': g_stpp, 'wvtt': g_wvtt, 'stsd': g_stsd, 'moov': g_moov,
}
# containers without fields of their own are exercised inside g_moov / g_fragment:
INSIDE = {'trak': 'moov', 'mdia': 'moov', 'minf': 'moov', 'stbl': 'moov', 'mvex': 'moov', 'sinf': 'moov (encrypted tracks)',
          'schi': 'moov (encrypted tracks)', 'udta': 'moov', 'moof': 'fragment', 'traf': 'fragment'}
