"""xs:duration / xs:dateTime lexical checkers and exact value parsers.

Written from XML Schema part 2 (3.2.6 duration, 3.2.7 dateTime); shares no
code with dashlive. Values are exact: Fractions of a second / aware datetimes
with integer microseconds.
"""
from __future__ import annotations

import datetime
import re
from fractions import Fraction

DURATION_RE = re.compile(
    r'^(?P<sign>-)?P(?:(?P<Y>\d+)Y)?(?:(?P<Mo>\d+)M)?(?:(?P<D>\d+)D)?'
    r'(?P<T>T(?:(?P<H>\d+)H)?(?:(?P<Mi>\d+)M)?(?:(?P<S>\d+)(?:\.(?P<F>\d+))?S)?)?$')

DATETIME_RE = re.compile(
    r'^(?P<y>-?\d{4,})-(?P<mo>\d{2})-(?P<d>\d{2})T(?P<h>\d{2}):(?P<mi>\d{2}):(?P<s>\d{2})'
    r'(?:\.(?P<f>\d+))?(?P<tz>Z|[+-]\d{2}:\d{2})?$')


class Lexical(ValueError):
    pass


def parse_duration(text: str):
    """-> (Fraction seconds, dict of fields). Raises Lexical if not an xs:duration."""
    m = DURATION_RE.match(text)
    if not m:
        raise Lexical(f'not an xs:duration: {text!r}')
    g = m.groupdict()
    if all(g[k] is None for k in ('Y', 'Mo', 'D', 'H', 'Mi', 'S')):
        raise Lexical(f'xs:duration without any component: {text!r}')
    if g['T'] is not None and all(g[k] is None for k in ('H', 'Mi', 'S')):
        raise Lexical(f'xs:duration with empty time part: {text!r}')
    if g['Y'] or g['Mo']:
        # calendar-dependent; exact value undefined - only lexical
        pass
    secs = Fraction(0)
    secs += int(g['D'] or 0) * 86400
    secs += int(g['H'] or 0) * 3600
    secs += int(g['Mi'] or 0) * 60
    secs += int(g['S'] or 0)
    if g['F']:
        secs += Fraction(int(g['F']), 10 ** len(g['F']))
    if g['sign']:
        secs = -secs
    fields = {k: (None if g[k] is None else int(g[k])) for k in ('Y', 'Mo', 'D', 'H', 'Mi', 'S')}
    fields['negative'] = bool(g['sign'])
    fields['F'] = g['F']
    return secs, fields


def parse_datetime(text: str):
    """-> (aware datetime in its own offset | naive, utcoffset timedelta | None)."""
    m = DATETIME_RE.match(text)
    if not m:
        raise Lexical(f'not an xs:dateTime: {text!r}')
    g = m.groupdict()
    f = g['f'] or ''
    if len(f) > 6 and set(f[6:]) != {'0'}:
        raise Lexical(f'sub-microsecond digits: {text!r}')
    us = int((f + '000000')[:6])
    tz = None
    if g['tz'] == 'Z':
        tz = datetime.timezone.utc
    elif g['tz']:
        sign = -1 if g['tz'][0] == '-' else 1
        hh, mm = int(g['tz'][1:3]), int(g['tz'][4:6])
        if hh > 14 or mm > 59:
            raise Lexical(f'bad timezone {text!r}')
        tz = datetime.timezone(sign * datetime.timedelta(hours=hh, minutes=mm))
    try:
        dt = datetime.datetime(int(g['y']), int(g['mo']), int(g['d']), int(g['h']), int(g['mi']),
                               int(g['s']), us, tzinfo=tz)
    except ValueError as e:
        raise Lexical(f'{text!r}: {e}')
    return dt


def is_unsigned(text: str) -> bool:
    return re.match(r'^\+?\d+$', text) is not None
