"""./check <ID> [--tier quick|thorough] [--replay FILE]

Exit 0: property held on everything explored (known findings are printed as
KNOWN-FINDING lines). Exit 1: at least one `VIOLATION property=<id>
replay=<path>` line. Exit 2: harness error (never a verdict).
"""
from __future__ import annotations

import argparse
import hashlib
import importlib
import json
import os
import sys
import time
import traceback
from pathlib import Path

from . import core


class Ctx:
    def __init__(self, prop, tier, seed):
        self.prop = prop
        self.tier = tier
        self.seed = seed
        self.acc = core.Acc()
        self.extra: dict = {}
        self.exhaustive = True
        self.quick = tier == 'quick'

    def pmap(self, fn, items, init=None, chunksize=1, jobs=None):
        return core.pmap(fn, items, seed=self.seed, init=init, chunksize=chunksize, jobs=jobs)

    def merge_all(self, results):
        for r in results:
            if r is not None:
                self.acc.merge(r)


def load_module(prop: str):
    return importlib.import_module(f'props.{prop.lower()}')


def validate_evidence(path: Path):
    schema = Path('/root/.vp/EVIDENCE.schema.json')
    if not schema.exists() or not Path('/opt/veriftools/pyvenv/bin/python').exists():
        return
    import subprocess
    code = ("import json,sys,jsonschema;"
            "jsonschema.validate(json.load(open(sys.argv[1])),json.load(open(sys.argv[2])))")
    r = subprocess.run(['/opt/veriftools/pyvenv/bin/python', '-c', code, str(path), str(schema)],
                       capture_output=True, text=True)
    if r.returncode != 0:
        print('HARNESS-ERROR: evidence does not validate:', r.stderr[-2000:])
        sys.exit(2)


def report(prop, mod, acc: core.Acc, findings: core.Findings, confirm=True):
    """Print KNOWN-FINDING / VIOLATION lines; return number of new violations."""
    new = 0
    seen_known = []
    for sig in sorted(acc.viol):
        lst = acc.viol[sig]
        kf = findings.lookup(prop, sig)
        if kf is not None:
            print(f"KNOWN-FINDING: property={prop} {sig} :: {kf.get('what', lst[0]['what'])} "
                  f"(observed {acc.viol_count[sig]}x this run)")
            seen_known.append(sig)
            continue
        v = lst[0]
        confirmed = None
        if confirm and hasattr(mod, 'replay'):
            # every recorded occurrence is tried: the replay function works from the record alone, in this process
            confirmed = False
            tried = []
            for cand in lst:
                try:
                    again = mod.replay(core.unjson(core.jsonable(cand['record'])))
                except Exception:
                    tried.append('replay raised ' + traceback.format_exc().splitlines()[-1])
                    continue
                sigs = {s for s, _ in again}
                if sig in sigs:
                    confirmed = True
                    v = cand
                    break
                tried.append(f'replay observed {sorted(sigs)[:3]}')
            if not confirmed:
                # The exploration saw it; the stand-alone replay did not. It is still reported (a violation that is
                # swallowed would be worse than one whose replay file needs the explorer to reproduce) and marked.
                print(f'NOTE: {sig!r} was observed {acc.viol_count[sig]}x by the exploration but the stand-alone replay did not '
                      f'reproduce it ({"; ".join(tried)[:300]}); re-run the check to reproduce')
        h = hashlib.sha1(sig.encode()).hexdigest()[:12]
        d = core.OUT / 'replay' / prop
        d.mkdir(parents=True, exist_ok=True)
        p = d / f'{h}.json'
        p.write_text(json.dumps({
            'property': prop, 'signature': sig, 'what': v['what'],
            'record': core.jsonable(v['record']),
            'harness_version': core.HARNESS_VERSION,
            'occurrences_this_run': acc.viol_count[sig],
            'confirmed_by_replay': confirmed,
        }, indent=1) + '\n')
        print(f'VIOLATION property={prop} replay={p}')
        print(f'  signature: {sig}')
        print(f'  what: {v["what"]}')
        new += 1
    return new, seen_known


def main(argv=None):
    ap = argparse.ArgumentParser()
    ap.add_argument('prop')
    ap.add_argument('--tier', default=os.environ.get('VERIF_TIER', 'quick'),
                    choices=['quick', 'thorough'])
    ap.add_argument('--replay')
    ap.add_argument('--no-confirm', action='store_true')
    args = ap.parse_args(argv)
    prop = args.prop.upper()
    os.environ['VERIF_PROP'] = prop
    seed = int(os.environ.get('VERIF_SEED', '0') or 0)
    sys.path.insert(0, str(core.REPO))
    core.run_dir()      # created before any fork so that every worker's world lives under it
    mod = load_module(prop)
    findings = core.Findings()

    if args.replay:
        rec = json.loads(Path(args.replay).read_text())
        res = mod.replay(core.unjson(rec['record']))
        rc = 0
        if not res:
            print(f'replay: no violation observed for {rec.get("signature")}')
        for sig, what in res:
            kf = findings.lookup(prop, sig)
            if kf is not None:
                print(f'KNOWN-FINDING: property={prop} {sig} :: {what}')
            else:
                print(f'VIOLATION property={prop} replay={args.replay}')
                print(f'  signature: {sig}')
                print(f'  what: {what}')
                rc = 1
        return rc

    t0 = time.time()
    ctx = Ctx(prop, args.tier, seed)
    try:
        pre = getattr(mod, 'PREFORK_WORLD', None)
        if pre is not None:
            # build the world once; fork()ed workers inherit a private copy of the in-memory database
            from . import world as W
            W.World.shared(**pre)
        mod.run(ctx)
    except core.HarnessError as e:
        print('HARNESS-ERROR:', e)
        return 2
    except Exception:
        print('HARNESS-ERROR: check raised')
        traceback.print_exc()
        return 2
    import shutil
    shutil.rmtree(core.OUT / 'replay' / prop, ignore_errors=True)
    new, seen_known = report(prop, mod, ctx.acc, findings, confirm=not args.no_confirm)
    wall = time.time() - t0
    extra = dict(ctx.extra)
    extra['known_findings_seen'] = seen_known
    extra['violation_signatures'] = {s: int(n) for s, n in sorted(ctx.acc.viol_count.items())}
    p = core.write_evidence(
        prop, args.tier, seed, getattr(mod, 'LEVEL', 'model_checking'), ctx.acc, wall,
        getattr(mod, 'RULE', ''), getattr(mod, 'ASSUMPTIONS', []), extra, new,
        exhaustive=ctx.exhaustive)
    validate_evidence(p)
    c = ctx.acc
    print(f'{prop} tier={args.tier} seed={seed} states={c.n_states()} '
          f'transitions={c.counts.get("transitions", 0)} evaluations={c.counts.get("evaluations", 0)} '
          f'nontrivial={c.n_nontrivial()} outcomes={len(c.outcomes)} '
          f'known={len(seen_known)} new_violations={new} wall={wall:.1f}s')
    return 1 if new else 0


if __name__ == '__main__':
    sys.exit(main())
