"""Run TLC on a model in /verif/models and load the complete labelled state graph.

Edge labels are lost ("Next") when an action quantifies over state variables, so
every model records its last action and the prescribed outcome in a history
variable `last`; it is read here from the target node of each edge.
"""
from __future__ import annotations

import re
import shutil
import subprocess
import tempfile
from pathlib import Path

from . import core

MODELS = core.VERIF / 'models'


class TlcError(Exception):
    pass


def run_tlc(module: str, constants: dict, invariants=(), timeout=600):
    """-> dict(nodes={id: label}, edges=[(src, dst)], init=id, stats={...})"""
    work = Path(tempfile.mkdtemp(prefix='tlc-', dir=str(core.run_dir())))
    try:
        shutil.copy(MODELS / f'{module}.tla', work / f'{module}.tla')
        lines = ['SPECIFICATION Spec', 'CONSTANTS']
        for k, v in constants.items():
            lines.append(f'  {k} = {v}')
        for inv in invariants:
            lines.append(f'INVARIANT {inv}')
        (work / f'{module}.cfg').write_text('\n'.join(lines) + '\n')
        cmd = ['tlc', '-workers', '1', '-noGenerateSpecTE', '-deadlock', '-metadir', str(work / 'meta'),
               '-dump', 'dot,actionlabels', str(work / 'out'), f'{module}.tla']
        r = subprocess.run(cmd, cwd=work, capture_output=True, text=True, timeout=timeout)
        out = r.stdout + r.stderr
        if 'No error has been found' not in out:
            raise TlcError(f'TLC did not finish cleanly for {module} {constants}:\n{out[-3000:]}')
        m = re.search(r'(\d+) states generated, (\d+) distinct states found', out)
        stats = {'generated': int(m.group(1)), 'distinct': int(m.group(2))} if m else {}
        m = re.search(r'depth of the complete state graph search is (\d+)', out)
        if m:
            stats['depth'] = int(m.group(1))
        dot = (work / 'out.dot').read_text()
    finally:
        shutil.rmtree(work, ignore_errors=True)
    nodes = {}
    edges = []
    init = None
    for line in dot.splitlines():
        m = re.match(r'^(-?\d+) -> (-?\d+) ', line)
        if m:
            edges.append((m.group(1), m.group(2)))
            continue
        m = re.match(r'^(-?\d+) \[label="((?:[^"\\]|\\.)*)"(,style = filled)?', line)
        if m:
            nodes[m.group(1)] = m.group(2).replace('\\n', '\n').replace('\\"', '"').replace('\\\\', '\\')
            if m.group(3):
                init = m.group(1)
    if init is None or not nodes:
        raise TlcError('could not parse the dot dump')
    return {'nodes': nodes, 'edges': edges, 'init': init, 'stats': stats}


def field(label: str, name: str) -> str:
    m = re.search(r'/\\ %s = (.*?)(?=\n/\\ |\Z)' % re.escape(name), label, re.S)
    if not m:
        raise TlcError(f'no variable {name} in node label')
    return m.group(1).strip()


def parse_tuple(text: str):
    """<<"use", 1, "c1", "s1", "ok">> -> ('use', 1, 'c1', 's1', 'ok')"""
    inner = text.strip()
    assert inner.startswith('<<') and inner.endswith('>>'), text
    out = []
    for part in re.findall(r'"[^"]*"|-?\d+|TRUE|FALSE', inner[2:-2]):
        if part.startswith('"'):
            out.append(part[1:-1])
        elif part in ('TRUE', 'FALSE'):
            out.append(part == 'TRUE')
        else:
            out.append(int(part))
    return tuple(out)


class Graph:
    def __init__(self, raw):
        self.init = raw['init']
        self.stats = raw['stats']
        self.last = {n: parse_tuple(field(lab, 'last')) for n, lab in raw['nodes'].items()}
        self.succ = {n: [] for n in raw['nodes']}
        seen = set()
        for a, b in raw['edges']:
            if (a, b) not in seen:
                seen.add((a, b))
                self.succ[a].append(b)
        for n in self.succ:
            self.succ[n].sort(key=lambda x: self.last[x])
        self.n_edges = len(seen)

    def shortest_paths(self):
        """BFS: node -> list of nodes from init (exclusive) to node (inclusive)."""
        from collections import deque
        paths = {self.init: []}
        dq = deque([self.init])
        while dq:
            n = dq.popleft()
            for s in self.succ[n]:
                if s not in paths:
                    paths[s] = paths[n] + [s]
                    dq.append(s)
        return paths

    def all_paths(self, max_len):
        """Every path from init of length 1..max_len (lists of nodes, init excluded)."""
        out = []

        def rec(n, path):
            if path:
                out.append(list(path))
            if len(path) >= max_len:
                return
            for s in self.succ[n]:
                path.append(s)
                rec(s, path)
                path.pop()
        rec(self.init, [])
        return out
