"""Independent ISO-BMFF box walker and field decoders.

Written from ISO/IEC 14496-12 (box structure, mfhd/tfhd/tfdt/trun/saiz/saio/
sidx/emsg/mehd/mdhd/tkhd/trex), ISO/IEC 23001-7 (senc, tenc, pssh) and the
PIFF 1.1 note (uuid sample-encryption box). Shares no code with
dashlive.mpeg.mp4. Strict: a size that does not nest raises Malformed.
"""
from __future__ import annotations

import struct
from fractions import Fraction


class Malformed(Exception):
    pass


CONTAINERS = {b'moov', b'trak', b'mdia', b'minf', b'stbl', b'mvex', b'moof', b'traf', b'edts',
              b'dinf', b'sinf', b'schi', b'mfra', b'udta'}
VISUAL = {b'avc1', b'avc3', b'hev1', b'hvc1', b'encv'}
AUDIO = {b'mp4a', b'ec-3', b'ac-3', b'enca'}
PIFF_SENC_UUID = bytes.fromhex('a2394f525a9b4f14a2446c427c648df4')


class Box:
    __slots__ = ('type', 'start', 'size', 'hdr', 'children', 'data', 'uuid', 'long_header')

    def __init__(self, btype, start, size, hdr, data, uuid=None, long_header=False):
        self.type = btype
        self.start = start
        self.size = size
        self.hdr = hdr
        self.children = []
        self.data = data        # the whole buffer (shared)
        self.uuid = uuid
        self.long_header = long_header

    @property
    def end(self):
        return self.start + self.size

    @property
    def body(self) -> bytes:
        return self.data[self.start + self.hdr:self.end]

    @property
    def raw(self) -> bytes:
        return self.data[self.start:self.end]

    @property
    def name(self):
        return self.type.decode('latin-1')

    def find(self, *path):
        """first descendant along path of type names"""
        cur = self
        for p in path:
            p = p.encode() if isinstance(p, str) else p
            nxt = None
            for c in cur.children:
                if c.type == p:
                    nxt = c
                    break
            if nxt is None:
                return None
            cur = nxt
        return cur

    def all(self, btype):
        btype = btype.encode() if isinstance(btype, str) else btype
        return [c for c in self.children if c.type == btype]

    def walk(self):
        yield self
        for c in self.children:
            yield from c.walk()

    def __repr__(self):
        return f'<{self.name} @{self.start}+{self.size}>'


def _header(data, pos, end):
    if end - pos < 8:
        raise Malformed(f'truncated box header at {pos} (have {end - pos} bytes)')
    size, btype = struct.unpack_from('>I4s', data, pos)
    hdr = 8
    long_header = False
    if size == 1:
        if end - pos < 16:
            raise Malformed(f'truncated 64-bit box header at {pos}')
        size = struct.unpack_from('>Q', data, pos + 8)[0]
        hdr = 16
        long_header = True
    elif size == 0:
        size = end - pos
    uuid = None
    if btype == b'uuid':
        if end - pos < hdr + 16:
            raise Malformed(f'truncated uuid box at {pos}')
        uuid = data[pos + hdr:pos + hdr + 16]
        hdr += 16
    if size < hdr:
        raise Malformed(f'box {btype!r} at {pos}: size {size} smaller than its header {hdr}')
    if pos + size > end:
        raise Malformed(f'box {btype!r} at {pos}: size {size} overruns its container (end {end})')
    return btype, size, hdr, uuid, long_header


def parse_boxes(data: bytes, start=0, end=None, depth=0):
    """Parse a sequence of boxes that must exactly fill [start, end)."""
    if end is None:
        end = len(data)
    out = []
    pos = start
    while pos < end:
        btype, size, hdr, uuid, lh = _header(data, pos, end)
        box = Box(btype, pos, size, hdr, data, uuid, lh)
        body = pos + hdr
        bend = pos + size
        if depth > 16:
            raise Malformed('nesting too deep')
        if btype in CONTAINERS:
            box.children = parse_boxes(data, body, bend, depth + 1)
        elif btype == b'stsd':
            if bend - body < 8:
                raise Malformed('stsd too short')
            box.children = parse_boxes(data, body + 8, bend, depth + 1)
        elif btype in VISUAL:
            if bend - body < 78:
                raise Malformed(f'{btype!r} sample entry too short')
            box.children = parse_boxes(data, body + 78, bend, depth + 1)
        elif btype in AUDIO:
            if bend - body < 28:
                raise Malformed(f'{btype!r} sample entry too short')
            box.children = parse_boxes(data, body + 28, bend, depth + 1)
        elif btype == b'meta':
            if bend - body >= 4:
                try:
                    box.children = parse_boxes(data, body + 4, bend, depth + 1)
                except Malformed:
                    box.children = []
        out.append(box)
        pos = bend
    if pos != end:
        raise Malformed(f'boxes end at {pos}, container ends at {end}')
    return out


class Root(Box):
    def __init__(self, data, children):
        super().__init__(b'root', 0, len(data), 0, data)
        self.children = children


def parse(data: bytes) -> Root:
    return Root(data, parse_boxes(data))


# ---------------------------------------------------------------------------
# field decoders

def fullbox(box: Box):
    b = box.body
    if len(b) < 4:
        raise Malformed(f'{box.name}: no FullBox header')
    v = b[0]
    flags = int.from_bytes(b[1:4], 'big')
    return v, flags, b[4:]


def _need(box, body, n):
    if len(body) < n:
        raise Malformed(f'{box.name}: body too short ({len(body)} < {n})')


def mfhd(box):
    v, f, b = fullbox(box)
    _need(box, b, 4)
    return {'version': v, 'flags': f, 'sequence_number': struct.unpack('>I', b[:4])[0]}


def tfhd(box):
    v, f, b = fullbox(box)
    _need(box, b, 4)
    out = {'version': v, 'flags': f, 'track_id': struct.unpack('>I', b[:4])[0]}
    p = 4
    for bit, name, fmt in ((0x1, 'base_data_offset', '>Q'), (0x2, 'sample_description_index', '>I'),
                           (0x8, 'default_sample_duration', '>I'), (0x10, 'default_sample_size', '>I'),
                           (0x20, 'default_sample_flags', '>I')):
        if f & bit:
            n = struct.calcsize(fmt)
            _need(box, b, p + n)
            out[name] = struct.unpack(fmt, b[p:p + n])[0]
            p += n
    if p != len(b):
        raise Malformed(f'tfhd: {len(b) - p} unexplained trailing bytes')
    out['default_base_is_moof'] = bool(f & 0x20000)
    out['duration_is_empty'] = bool(f & 0x10000)
    return out


def tfdt(box):
    v, f, b = fullbox(box)
    if v == 1:
        _need(box, b, 8)
        val = struct.unpack('>Q', b[:8])[0]
        used = 8
    else:
        _need(box, b, 4)
        val = struct.unpack('>I', b[:4])[0]
        used = 4
    if used != len(b):
        raise Malformed(f'tfdt v{v}: body is {len(b)} bytes, expected {used}')
    return {'version': v, 'flags': f, 'base_media_decode_time': val}


def trun(box):
    v, f, b = fullbox(box)
    _need(box, b, 4)
    count = struct.unpack('>I', b[:4])[0]
    p = 4
    out = {'version': v, 'flags': f, 'sample_count': count, 'data_offset': None,
           'first_sample_flags': None, 'data_offset_pos': None}
    if f & 0x1:
        _need(box, b, p + 4)
        out['data_offset'] = struct.unpack('>i', b[p:p + 4])[0]
        out['data_offset_pos'] = box.start + box.hdr + 4 + p
        p += 4
    if f & 0x4:
        _need(box, b, p + 4)
        out['first_sample_flags'] = struct.unpack('>I', b[p:p + 4])[0]
        p += 4
    per = sum(4 for bit in (0x100, 0x200, 0x400, 0x800) if f & bit)
    _need(box, b, p + per * count)
    samples = []
    for _ in range(count):
        s = {}
        if f & 0x100:
            s['duration'] = struct.unpack('>I', b[p:p + 4])[0]
            p += 4
        if f & 0x200:
            s['size'] = struct.unpack('>I', b[p:p + 4])[0]
            p += 4
        if f & 0x400:
            s['flags'] = struct.unpack('>I', b[p:p + 4])[0]
            p += 4
        if f & 0x800:
            s['cto'] = struct.unpack('>i' if v == 1 else '>I', b[p:p + 4])[0]
            p += 4
        samples.append(s)
    if p != len(b):
        raise Malformed(f'trun: {len(b) - p} unexplained trailing bytes')
    out['samples'] = samples
    return out


def saiz(box):
    v, f, b = fullbox(box)
    p = 0
    out = {'version': v, 'flags': f}
    if f & 1:
        _need(box, b, 8)
        out['aux_info_type'] = b[0:4]
        out['aux_info_type_parameter'] = struct.unpack('>I', b[4:8])[0]
        p = 8
    _need(box, b, p + 5)
    out['default_sample_info_size'] = b[p]
    out['sample_count'] = struct.unpack('>I', b[p + 1:p + 5])[0]
    p += 5
    if out['default_sample_info_size'] == 0:
        _need(box, b, p + out['sample_count'])
        out['sizes'] = list(b[p:p + out['sample_count']])
        p += out['sample_count']
    else:
        out['sizes'] = [out['default_sample_info_size']] * out['sample_count']
    if p != len(b):
        raise Malformed(f'saiz: {len(b) - p} unexplained trailing bytes')
    return out


def saio(box):
    v, f, b = fullbox(box)
    p = 0
    out = {'version': v, 'flags': f}
    if f & 1:
        _need(box, b, 8)
        p = 8
    _need(box, b, p + 4)
    n = struct.unpack('>I', b[p:p + 4])[0]
    p += 4
    w = 8 if v == 1 else 4
    _need(box, b, p + n * w)
    out['offsets'] = [int.from_bytes(b[p + i * w:p + (i + 1) * w], 'big') for i in range(n)]
    out['offset_pos'] = box.start + box.hdr + 4 + p
    p += n * w
    if p != len(b):
        raise Malformed(f'saio: {len(b) - p} unexplained trailing bytes')
    return out


def senc_like(box, body_after_fullbox, flags, iv_size, what):
    """CencSampleEncryption layout: sample_count, then per sample IV [+ subsample table iff flags&2]."""
    b = body_after_fullbox
    p = 0
    out = {'flags': flags}
    if what == 'piff' and flags & 1:
        _need(box, b, 20)
        out['algorithm_id'] = int.from_bytes(b[0:3], 'big')
        iv_size = b[3]
        out['kid'] = b[4:20]
        p = 20
    _need(box, b, p + 4)
    count = struct.unpack('>I', b[p:p + 4])[0]
    p += 4
    out['sample_count'] = count
    out['first_sample_pos'] = box.start + box.hdr + 4 + p
    samples = []
    for i in range(count):
        if len(b) < p + iv_size:
            raise Malformed(f'{what}: sample {i} IV overruns box (iv_size {iv_size}, flags {flags:#x})')
        iv = b[p:p + iv_size]
        p += iv_size
        subs = None
        if flags & 2:
            if len(b) < p + 2:
                raise Malformed(f'{what}: sample {i} sub-sample count overruns box')
            n = struct.unpack('>H', b[p:p + 2])[0]
            p += 2
            if len(b) < p + 6 * n:
                raise Malformed(f'{what}: sample {i} sub-sample table overruns box')
            subs = [struct.unpack('>HI', b[p + 6 * j:p + 6 * j + 6]) for j in range(n)]
            p += 6 * n
        samples.append((iv, subs))
    if p != len(b):
        raise Malformed(f'{what}: {len(b) - p} bytes left after {count} samples '
                        f'(iv_size {iv_size}, flags {flags:#x})')
    out['samples'] = samples
    out['iv_size'] = iv_size
    return out


def senc(box, iv_size):
    v, f, b = fullbox(box)
    return senc_like(box, b, f, iv_size, 'senc')


def piff_senc(box, iv_size):
    v, f, b = fullbox(box)
    return senc_like(box, b, f, iv_size, 'piff')


def emsg(box):
    v, f, b = fullbox(box)

    def cstr(p):
        e = b.find(b'\0', p)
        if e < 0:
            raise Malformed('emsg: unterminated string')
        return b[p:e].decode('utf-8', 'replace'), e + 1
    out = {'version': v, 'flags': f}
    if v == 0:
        s, p = cstr(0)
        val, p = cstr(p)
        _need(box, b, p + 16)
        ts, delta, dur, eid = struct.unpack('>IIII', b[p:p + 16])
        p += 16
        out.update(scheme_id_uri=s, value=val, timescale=ts, presentation_time_delta=delta,
                   event_duration=dur, id=eid)
    elif v == 1:
        _need(box, b, 20)
        ts, pt, dur, eid = struct.unpack('>IQII', b[:20])
        s, p = cstr(20)
        val, p = cstr(p)
        out.update(scheme_id_uri=s, value=val, timescale=ts, presentation_time=pt,
                   event_duration=dur, id=eid)
    else:
        raise Malformed(f'emsg version {v}')
    out['message_data'] = b[p:]
    return out


def sidx(box):
    v, f, b = fullbox(box)
    _need(box, b, 8)
    ref_id, ts = struct.unpack('>II', b[:8])
    p = 8
    if v == 0:
        _need(box, b, p + 8)
        ept, fo = struct.unpack('>II', b[p:p + 8])
        p += 8
    else:
        _need(box, b, p + 16)
        ept, fo = struct.unpack('>QQ', b[p:p + 16])
        p += 16
    _need(box, b, p + 4)
    n = struct.unpack('>H', b[p + 2:p + 4])[0]
    p += 4
    refs = []
    _need(box, b, p + 12 * n)
    for i in range(n):
        a, d, s = struct.unpack('>III', b[p:p + 12])
        refs.append({'type': a >> 31, 'size': a & 0x7fffffff, 'duration': d, 'sap': s})
        p += 12
    if p != len(b):
        raise Malformed('sidx: trailing bytes')
    return {'version': v, 'reference_id': ref_id, 'timescale': ts, 'earliest_presentation_time': ept,
            'first_offset': fo, 'references': refs}


def pssh(box):
    v, f, b = fullbox(box)
    _need(box, b, 16)
    out = {'version': v, 'flags': f, 'system_id': b[:16], 'kids': []}
    p = 16
    if v > 0:
        _need(box, b, p + 4)
        n = struct.unpack('>I', b[p:p + 4])[0]
        p += 4
        _need(box, b, p + 16 * n)
        out['kids'] = [b[p + 16 * i:p + 16 * i + 16] for i in range(n)]
        p += 16 * n
    _need(box, b, p + 4)
    n = struct.unpack('>I', b[p:p + 4])[0]
    p += 4
    _need(box, b, p + n)
    out['data'] = b[p:p + n]
    p += n
    if p != len(b):
        raise Malformed(f'pssh: {len(b) - p} trailing bytes')
    return out


def tenc(box):
    v, f, b = fullbox(box)
    _need(box, b, 20)
    return {'version': v, 'is_protected': b[2], 'iv_size': b[3], 'kid': b[4:20]}


def mdhd(box):
    v, f, b = fullbox(box)
    if v == 1:
        _need(box, b, 28)
        ts, dur = struct.unpack('>IQ', b[16:28])
    else:
        _need(box, b, 16)
        ts, dur = struct.unpack('>II', b[8:16])
    return {'version': v, 'timescale': ts, 'duration': dur}


def tkhd(box):
    v, f, b = fullbox(box)
    if v == 1:
        _need(box, b, 20)
        tid = struct.unpack('>I', b[16:20])[0]
    else:
        _need(box, b, 12)
        tid = struct.unpack('>I', b[8:12])[0]
    return {'version': v, 'track_id': tid}


def trex(box):
    v, f, b = fullbox(box)
    _need(box, b, 20)
    tid, sdi, dur, size, flags = struct.unpack('>IIIII', b[:20])
    return {'track_id': tid, 'default_sample_description_index': sdi, 'default_sample_duration': dur,
            'default_sample_size': size, 'default_sample_flags': flags}


def mehd(box):
    v, f, b = fullbox(box)
    if v == 1:
        _need(box, b, 8)
        return {'version': v, 'fragment_duration': struct.unpack('>Q', b[:8])[0]}
    _need(box, b, 4)
    return {'version': v, 'fragment_duration': struct.unpack('>I', b[:4])[0]}


# ---------------------------------------------------------------------------
# whole-file scan

class InitInfo:
    def __init__(self, data: bytes):
        self.root = parse(data)
        moov = self.root.find('moov')
        if moov is None:
            raise Malformed('no moov')
        self.moov = moov
        trak = moov.find('trak')
        self.track_id = tkhd(trak.find('tkhd'))['track_id']
        self.timescale = mdhd(trak.find('mdia', 'mdhd'))['timescale']
        tx = moov.find('mvex', 'trex')
        self.trex = trex(tx) if tx is not None else None
        self.tenc = None
        for b in moov.walk():
            if b.type == b'tenc':
                self.tenc = tenc(b)
        self.iv_size = self.tenc['iv_size'] if self.tenc else None
        self.kid = self.tenc['kid'] if self.tenc else None
        self.encrypted = self.tenc is not None
        self.has_mehd = moov.find('mvex', 'mehd') is not None


class Fragment:
    """One media segment (optional styp/sidx/emsg, moof, mdat) decoded."""

    def __init__(self, data: bytes, init: InitInfo | None = None, iv_size=None, base=0):
        self.data = data
        self.root = parse(data)
        self.moof = self.root.find('moof')
        self.mdat = self.root.find('mdat')
        if self.moof is None or self.mdat is None:
            raise Malformed('segment without moof/mdat: ' + ','.join(c.name for c in self.root.children))
        self.mfhd = mfhd(self.moof.find('mfhd'))
        traf = self.moof.find('traf')
        if traf is None:
            raise Malformed('moof without traf')
        self.traf = traf
        self.tfhd = tfhd(traf.find('tfhd'))
        t = traf.find('tfdt')
        self.tfdt = tfdt(t) if t is not None else None
        self.trun = trun(traf.find('trun'))
        trex_ = init.trex if init is not None else None
        dflt_dur = self.tfhd.get('default_sample_duration', trex_['default_sample_duration'] if trex_ else None)
        dflt_size = self.tfhd.get('default_sample_size', trex_['default_sample_size'] if trex_ else None)
        self.sample_durations = [s.get('duration', dflt_dur) for s in self.trun['samples']]
        self.sample_sizes = [s.get('size', dflt_size) for s in self.trun['samples']]
        self.duration = None if any(d is None for d in self.sample_durations) else sum(self.sample_durations)
        self.payload = self.mdat.body
        self.emsgs = [emsg(b) for b in self.root.all('emsg')]
        self.iv_size = iv_size if iv_size is not None else (init.iv_size if init is not None else None)
        self.base = base    # file offset of data[0] (for explicit base_data_offset)

    def data_start(self):
        """Absolute position (in self.data coordinates) trun.data_offset points at."""
        off = self.trun['data_offset'] or 0
        if 'base_data_offset' in self.tfhd:
            return self.tfhd['base_data_offset'] - self.base + off
        # default-base-is-moof, or (no flag) first traf: base is the start of the enclosing moof
        return self.moof.start + off

    def senc_box(self):
        return self.traf.find('senc')

    def piff_box(self):
        for c in self.traf.children:
            if c.type == b'uuid' and c.uuid == PIFF_SENC_UUID:
                return c
        return None


def scan_file(data: bytes):
    """-> (InitInfo, [dict(index, start, size, first_box, tfdt, duration, payload_start, payload_len)])

    Segments are cut as upstream cuts them: an optional run of styp/sidx/emsg/prft boxes, then moof, then mdat.
    """
    root = parse(data)
    kids = root.children
    init_end = 0
    i = 0
    while i < len(kids) and kids[i].type in (b'ftyp', b'moov', b'free', b'skip', b'uuid', b'pssh', b'mfra'):
        init_end = kids[i].end
        i += 1
        if kids[i - 1].type == b'moov':
            break
    init = InitInfo(data[:init_end])
    segs = []
    cur_start = None
    first = None
    acc_time = None
    while i < len(kids):
        b = kids[i]
        if cur_start is None:
            cur_start = b.start
            first = b.name
        if b.type == b'mdat':
            seg_bytes = data[cur_start:b.end]
            frag = Fragment(seg_bytes, init, base=cur_start)
            t = frag.tfdt['base_media_decode_time'] if frag.tfdt else None
            if t is None:
                t = acc_time if acc_time is not None else 0
            segs.append({'index': len(segs) + 1, 'start': cur_start, 'size': b.end - cur_start,
                         'first_box': first, 'tfdt': t, 'has_tfdt': frag.tfdt is not None,
                         'duration': frag.duration, 'payload_start': b.start + b.hdr,
                         'payload_len': b.size - b.hdr, 'sequence_number': frag.mfhd['sequence_number'],
                         'sample_count': frag.trun['sample_count']})
            acc_time = t + (frag.duration or 0)
            cur_start = None
        i += 1
    return init, segs, init_end
