"""Synchronous, deterministic driver for the bundled DASH validator (C18).

The validator is async and wants an HTTP client and a worker pool: here the client calls the
in-process world directly (optionally rewriting one response), the pool runs submitted functions
inline, the event loop is a fresh asyncio loop per session in which nothing ever really waits, and
"sleeping until the next refresh" advances the virtual clock.
"""
from __future__ import annotations

import asyncio
import datetime
import json

from . import world as W


class VResponse:
    def __init__(self, resp, body=None, status=None):
        self._r = resp
        self.status_code = resp.status if status is None else status
        self.headers = dict(resp.headers or {})
        self._body = resp.body if body is None else body
        if body is not None:
            self.headers['Content-Length'] = str(len(body))

    def get_data(self, as_text: bool = False):
        if as_text:
            return self._body.decode('utf-8')
        return self._body

    @property
    def data(self):
        return self._body

    @property
    def text(self):
        return self._body.decode('utf-8')

    @property
    def json(self):
        return json.loads(self._body)

    @property
    def xml(self):
        from lxml import etree as ET
        return ET.fromstring(self._body)

    @property
    def mimetype(self):
        return (self.headers.get('Content-Type') or '').split(';')[0]

    @property
    def content_type(self):
        return self.headers.get('Content-Type')


class Client:
    """tamper: None or callable(index, kind, url, VResponse) -> VResponse | None (kind: manifest|patch|init|media|other)"""

    def __init__(self, world, tamper=None):
        self.w = world
        self.tamper = tamper
        self.log = []           # (index, kind, url, status)
        self.manifest_texts = []        # every manifest body handed to the validator (line numbers of errors refer to them)
        self.n = 0
        self.exceptions = []

    @staticmethod
    def kind_of(url):
        path = url.split('?')[0]
        if path.endswith('.mpd'):
            return 'manifest'
        if '/patch/' in path:
            return 'patch'
        if '/init.' in path:
            return 'init'
        if path.endswith(('.m4v', '.m4a', '.mp4')):
            return 'media'
        return 'other'

    def _do(self, method, url, headers):
        from .mpd import split_url
        r = self.w.request(method, split_url(url), headers=headers)
        if r.exc is not None:
            self.exceptions.append((url, W.crash_signature(r.exc)))
        v = VResponse(r)
        kind = self.kind_of(url)
        idx = self.n
        self.n += 1
        if self.tamper is not None and method == 'GET':
            t = self.tamper(idx, kind, url, v)
            if t is not None:
                v = t
        self.log.append((idx, kind, url, v.status_code))
        if kind == 'manifest' and v.status_code == 200:
            try:
                self.manifest_texts.append(v.get_data(as_text=True))
            except Exception:
                pass
        return v

    async def get(self, url, headers=None, params=None, status=None, xhr=False):
        return self._do('GET', url, headers)

    async def head(self, url, headers=None, params=None, status=None, xhr=False):
        return self._do('HEAD', url, headers)


class _Group:
    def __init__(self, pool):
        self.pool = pool

    async def __aenter__(self):
        return self

    async def __aexit__(self, et, ev, tb):
        return False

    def submit(self, fn, *args, **kwargs):
        return self.pool.submit(fn, *args, **kwargs)


class InlinePool:
    def __init__(self):
        self.errors = []

    def group(self, progress=None):
        return _Group(self)

    def submit(self, fn, *args, **kwargs):
        fut = asyncio.get_running_loop().create_future()
        try:
            fut.set_result(fn(*args, **kwargs))
        except Exception as e:           # what ConcurrentWorkerPool would hand back through the future
            fut.set_exception(e)
        return fut

    async def wait_for_completion(self, timeout=0):
        return []


class Session:
    """One validation session: load -> validate -> (advance clock) -> refresh ... until finished or the round bound."""

    def __init__(self, world, url, mode, duration, encrypted=False, tamper=None, max_rounds=12, now=None):
        self.w = world
        self.url = url if url.startswith('http') else 'http://localhost' + url
        self.mode = mode
        self.duration = duration
        self.encrypted = encrypted
        self.client = Client(world, tamper)
        self.max_rounds = max_rounds
        self.rounds = 0
        self.finished = False
        self.crash = None
        self.errors = []
        self.dv = None

    def run(self):
        from dashlive.mpeg.dash.validator import DashValidator, ValidatorOptions
        from dashlive.server import models
        from dashlive.utils.date_time import RelaxedDateTime
        import logging
        now = W.get_now()
        log = logging.getLogger('c18-validator')
        log.setLevel(logging.CRITICAL)
        log.propagate = False
        opts = ValidatorOptions(duration=self.duration, encrypted=self.encrypted, pool=InlinePool(), log=log,
                                start_time=RelaxedDateTime(now.year, now.month, now.day, now.hour, now.minute, now.second,
                                                           now.microsecond, tzinfo=now.tzinfo))
        dv = self.dv = DashValidator(url=self.url, http_client=self.client, mode=self.mode, options=opts)

        async def main():
            loaded = await dv.load()
            if loaded:
                with self.w.appctx():
                    for mf in models.MediaFile.all():
                        if mf.representation is not None:
                            dv.set_representation_info(mf.representation)
                    models.db.session.remove()
            while loaded and not dv.finished() and self.rounds < self.max_rounds:
                before_round = W.get_now()
                await dv.validate()
                self.rounds += 1
                if dv.has_errors():
                    break
                if not dv.finished():
                    if dv.mode != 'live':
                        break
                    await dv.sleep()            # asyncio.sleep is the virtual one (see run)
                    if W.get_now() <= before_round:
                        W.advance(1)            # a validator that does not wait would spin: the clock still moves on
                    if not await dv.refresh():
                        break
            self.finished = bool(loaded and dv.finished())
        loop = asyncio.new_event_loop()
        real_sleep = asyncio.sleep

        async def virtual_sleep(delay, result=None):
            if delay and delay > 0:
                W.advance(delay)
            return await real_sleep(0, result)
        asyncio.sleep = virtual_sleep
        try:
            loop.run_until_complete(main())
        except Exception as e:
            self.crash = W.crash_signature((type(e).__name__, __import__('traceback').format_exc()))
        finally:
            asyncio.sleep = real_sleep
            loop.close()
        try:
            self.errors = list(dv.get_errors())
        except Exception as e:
            self.crash = self.crash or f'get_errors:{type(e).__name__}'
        return self
