"""Shared runner pieces: accumulator, parallel map, findings, evidence.

Everything a check reports is *measured* here: counts are Counter entries,
distinct cases are set sizes (8-byte digests), violations are (signature,
what, replay record) triples grouped by signature.
"""
from __future__ import annotations

import hashlib
import json
import multiprocessing as mp
import os
import random
import sys
import time
import traceback
from collections import Counter
from pathlib import Path

VERIF = Path(__file__).resolve().parent.parent
REPO = Path(os.environ.get('VERIF_REPO', '/repo')).resolve()
# scratch runs (signature discovery against a copy of the repository) write their evidence and replay files elsewhere
OUT = Path(os.environ.get('VERIF_OUT', str(Path(__file__).resolve().parent.parent)))
NCPU = int(os.environ.get('VERIF_JOBS', '0')) or min(16, os.cpu_count() or 1)
HARNESS_VERSION = 1


def digest(obj) -> bytes:
    """8-byte digest of a canonical JSON-ish rendering of obj."""
    if isinstance(obj, bytes):
        data = obj
    else:
        data = repr(obj).encode('utf-8', 'backslashreplace')
    return hashlib.blake2b(data, digest_size=8).digest()


def _brief(key):
    if isinstance(key, bytes):
        return key.hex()
    r = repr(key)
    return r if len(r) <= 300 else r[:300] + '...'


class Acc:
    """Accumulator; one per work item on a worker, merged in the parent."""
    MAX_PER_SIG = 3
    MAX_SAMPLES = 12

    def __init__(self):
        self.viol: dict[str, list] = {}
        self.viol_count: Counter = Counter()
        self.counts: Counter = Counter()
        self.nontrivial: set[bytes] = set()
        self.states: set[bytes] = set()
        self.outcomes: set = set()
        self.samples: list = []
        self.notes: dict = {}
        self._auto = 0
        self._auto_s = 0

    # -- recording -------------------------------------------------------
    def violation(self, signature: str, what: str, record: dict):
        self.viol_count[signature] += 1
        lst = self.viol.setdefault(signature, [])
        if len(lst) < self.MAX_PER_SIG:
            lst.append({'signature': signature, 'what': what, 'record': record})

    def count(self, key: str, n: int = 1):
        self.counts[key] += n

    def nontriv(self, key):
        self.nontrivial.add(digest(key))
        if self._auto < 2:
            # evidence shows what the explored cases look like: the first keys of each work item are written out
            self._auto += 1
            self.sample({'nontrivial_case': _brief(key)})

    def state(self, key):
        self.states.add(digest(key))
        if self._auto_s < 1:
            self._auto_s += 1
            self.sample({'state': _brief(key)})

    def outcome(self, key):
        if len(self.outcomes) < 100000:
            self.outcomes.add(key if isinstance(key, (str, int, tuple)) else repr(key))

    def sample(self, s):
        if len(self.samples) < self.MAX_SAMPLES:
            self.samples.append(s)

    def compact(self):
        """Replace the digest sets by their sizes (only valid when the caller's
        work items are disjoint by construction, so that sizes add up)."""
        self.counts['states_compacted'] += len(self.states)
        self.counts['nontrivial_compacted'] += len(self.nontrivial)
        self.states = set()
        self.nontrivial = set()
        return self

    def n_states(self):
        return len(self.states) + self.counts.get('states_compacted', 0)

    def n_nontrivial(self):
        return len(self.nontrivial) + self.counts.get('nontrivial_compacted', 0)

    def merge(self, other: 'Acc'):
        for sig, lst in other.viol.items():
            mine = self.viol.setdefault(sig, [])
            for v in lst:
                if len(mine) < self.MAX_PER_SIG:
                    mine.append(v)
        self.viol_count.update(other.viol_count)
        self.counts.update(other.counts)
        self.nontrivial |= other.nontrivial
        self.states |= other.states
        self.outcomes |= other.outcomes
        for s in other.samples:
            self.sample(s)
        for k, v in other.notes.items():
            if isinstance(v, dict) and isinstance(self.notes.get(k), dict):
                self.notes[k].update(v)
            else:
                self.notes.setdefault(k, v)


# ---------------------------------------------------------------------------
# parallel map over fork()ed long-lived workers

_WORK_FN = None
_WORK_INIT = None


def _worker_boot(init):
    if init is not None:
        init()


class HarnessError(Exception):
    pass


def _call(packed):
    idx, fn, arg = packed
    try:
        return idx, fn(arg), None
    except (HarnessError, MemoryError, KeyboardInterrupt, SystemExit):
        return idx, None, traceback.format_exc()
    except Exception as e:
        # An exception that escapes a work item. On the unchanged tree every item runs to its end, so this only happens
        # when the code under test produced something of a shape the reference readers do not understand. Swallowing
        # it (exit 2) would hide exactly the changes the check exists for, so it is reported as a violation that says
        # what it is. VERIF_STRICT_HARNESS=1 turns it back into a hard error (used while developing a check).
        if os.environ.get('VERIF_STRICT_HARNESS') == '1' or not os.environ.get('VERIF_PROP'):
            return idx, None, traceback.format_exc()
        tb = traceback.extract_tb(e.__traceback__)
        site = '?'
        for fr in tb:
            if '/verif/' in fr.filename:
                site = f'{fr.filename.split("/verif/")[-1]}:{fr.name}'
        acc = Acc()
        acc.violation(f'{os.environ["VERIF_PROP"]}|reference-reader-exception|{type(e).__name__}@{site}',
                      f'the reference oracle raised {type(e).__name__}: {str(e)[:200]} while judging work item '
                      f'{repr(arg)[:200]} - the output of the code under test has a shape it does not understand',
                      {'kind': 'oracle-exception', 'item': repr(arg)[:500], 'traceback': traceback.format_exc()[-3000:]})
        return idx, acc, None


def pmap(fn, items, seed: int = 0, init=None, jobs: int | None = None, chunksize: int = 1):
    """Apply fn to every item on a pool of forked workers.

    The hand-out order is permuted by `seed`; results come back in the
    original order so the verdict and all counts are seed independent.
    """
    items = list(items)
    n = len(items)
    order = list(range(n))
    random.Random(seed).shuffle(order)
    jobs = jobs or NCPU
    out = [None] * n
    if jobs <= 1 or n <= 1:
        if init is not None:
            init()
        for i in order:
            _, r, err = _call((i, fn, items[i]))
            if err:
                raise HarnessError(err)
            out[i] = r
        return out
    # concurrent.futures notices a worker that died (BrokenProcessPool); multiprocessing.Pool would wait for ever
    import concurrent.futures as cf
    ctx = mp.get_context('fork')
    work = [(i, fn, items[i]) for i in order]
    try:
        with cf.ProcessPoolExecutor(min(jobs, n), mp_context=ctx, initializer=_worker_boot, initargs=(init,)) as ex:
            if n <= 20000 and chunksize == 1:
                futs = [ex.submit(_call, w) for w in work]
                for f in cf.as_completed(futs):
                    idx, r, err = f.result()
                    if err:
                        for g in futs:
                            g.cancel()
                        raise HarnessError(err)
                    out[idx] = r
            else:
                for idx, r, err in ex.map(_call, work, chunksize=max(chunksize, n // (jobs * 64) or 1)):
                    if err:
                        raise HarnessError(err)
                    out[idx] = r
    except cf.process.BrokenProcessPool as e:
        raise HarnessError(f'a worker process died ({e}); no verdict')
    return out


def in_child(fn, arg=None):
    """Run fn(arg) in a forked child (so the parent never builds a world)."""
    ctx = mp.get_context('fork')
    with ctx.Pool(1) as pool:
        idx, r, err = pool.apply(_call, ((0, fn, arg),))
    if err:
        raise HarnessError(err)
    return r


_RUN_DIR = None


def run_dir() -> Path:
    """Per-run scratch directory under /dev/shm; created by the parent, removed at its exit."""
    global _RUN_DIR
    if _RUN_DIR is None:
        import atexit
        import shutil
        import tempfile
        _RUN_DIR = Path(tempfile.mkdtemp(prefix='verif-run-', dir='/dev/shm'))
        owner = os.getpid()

        def _cleanup():
            if os.getpid() == owner:
                shutil.rmtree(_RUN_DIR, ignore_errors=True)
        atexit.register(_cleanup)
    return _RUN_DIR


def chunks(seq, n):
    seq = list(seq)
    for i in range(0, len(seq), n):
        yield seq[i:i + n]


# ---------------------------------------------------------------------------
# findings

class Findings:
    def __init__(self, path: Path | None = None):
        self.path = path or (VERIF / 'known_findings.json')
        self.known: dict[tuple[str, str], dict] = {}
        self.fixed: list[dict] = []
        if self.path.exists():
            data = json.loads(self.path.read_text())
            for f in data.get('findings', []):
                if f.get('status') == 'known':
                    key = (f['property'], f['signature'])
                    if key in self.known:
                        raise HarnessError(f'duplicate finding {key}')
                    self.known[key] = f
                else:
                    self.fixed.append(f)

    def lookup(self, prop: str, signature: str):
        return self.known.get((prop, signature))


# ---------------------------------------------------------------------------
# evidence

def write_evidence(prop: str, tier: str, seed: int, level: str, acc: Acc,
                   wall: float, rule: str, assumptions: list[str], extra: dict,
                   n_violations: int, exhaustive: bool = True):
    cov = {
        'evaluations': int(acc.counts.get('evaluations', 0)),
        'distinct_nontrivial': acc.n_nontrivial(),
        'rule': rule,
        'samples': acc.samples[:Acc.MAX_SAMPLES] or ['(none)'],
        'states': acc.n_states(),
        'transitions': int(acc.counts.get('transitions', 0)),
        'traces_validated_against_impl': int(acc.counts.get('traces', 0)),
        'exhaustive': bool(exhaustive),
        'distinct_outcomes': len(acc.outcomes),
        'outcomes_seen': sorted(_brief(o) for o in acc.outcomes)[:80],
        'counts': {k: int(v) for k, v in sorted(acc.counts.items())},
    }
    cov.update(extra)
    ev = {
        'property_id': prop,
        'tier': tier,
        'seed': int(seed),
        'level': level,
        'coverage': cov,
        'assumptions': assumptions,
        'wall_s': round(wall, 2),
        'violations': int(n_violations),
    }
    d = OUT / 'evidence'
    d.mkdir(parents=True, exist_ok=True)
    p = d / f'{prop}.json'
    tmp = p.with_suffix('.json.tmp')
    tmp.write_text(json.dumps(ev, indent=1, sort_keys=True, default=str) + '\n')
    tmp.replace(p)
    return p


def jsonable(x):
    """Make a replay record JSON-serialisable (bytes -> {'b64':..})."""
    import base64
    if isinstance(x, bytes):
        return {'__b64__': base64.b64encode(x).decode()}
    if isinstance(x, dict):
        return {str(k): jsonable(v) for k, v in x.items()}
    if isinstance(x, (list, tuple)):
        return [jsonable(v) for v in x]
    if isinstance(x, (str, int, float, bool)) or x is None:
        return x
    return repr(x)


def unjson(x):
    import base64
    if isinstance(x, dict):
        if set(x) == {'__b64__'}:
            return base64.b64decode(x['__b64__'])
        return {k: unjson(v) for k, v in x.items()}
    if isinstance(x, list):
        return [unjson(v) for v in x]
    return x
