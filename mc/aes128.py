"""Pure-Python AES-128 single-block encryption (FIPS-197), used as the oracle for
the PlayReady checksum (pycryptodome is what the code under test uses)."""

SBOX = [0] * 256


def _init():
    p = q = 1
    while True:
        # multiply p by 3
        p = p ^ ((p << 1) & 0xFF) ^ (0x1B if p & 0x80 else 0)
        # divide q by 3
        q ^= q << 1
        q ^= q << 2
        q ^= q << 4
        q &= 0xFF
        if q & 0x80:
            q ^= 0x09
        x = q ^ ((q << 1) | (q >> 7)) & 0xFF ^ ((q << 2) | (q >> 6)) & 0xFF ^ ((q << 3) | (q >> 5)) & 0xFF ^ \
            ((q << 4) | (q >> 4)) & 0xFF
        SBOX[p] = (x ^ 0x63) & 0xFF
        if p == 1:
            break
    SBOX[0] = 0x63


_init()


def _xtime(a):
    return ((a << 1) ^ 0x1B) & 0xFF if a & 0x80 else (a << 1)


def expand_key(key: bytes):
    assert len(key) == 16
    w = [list(key[i:i + 4]) for i in range(0, 16, 4)]
    rcon = 1
    for i in range(4, 44):
        t = list(w[i - 1])
        if i % 4 == 0:
            t = t[1:] + t[:1]
            t = [SBOX[b] for b in t]
            t[0] ^= rcon
            rcon = _xtime(rcon)
        w.append([a ^ b for a, b in zip(w[i - 4], t)])
    return [sum((w[r * 4 + c] for c in range(4)), []) for r in range(11)]


def encrypt_block(key: bytes, block: bytes) -> bytes:
    assert len(block) == 16
    rk = expand_key(key)
    s = [b ^ k for b, k in zip(block, rk[0])]
    for rnd in range(1, 11):
        s = [SBOX[b] for b in s]
        # shift rows (state is column-major: index = 4*col + row)
        s = [s[(4 * ((c + r) % 4)) + r] for c in range(4) for r in range(4)]
        if rnd != 10:
            out = []
            for c in range(4):
                a = s[4 * c:4 * c + 4]
                t = a[0] ^ a[1] ^ a[2] ^ a[3]
                out += [a[0] ^ t ^ _xtime(a[0] ^ a[1]), a[1] ^ t ^ _xtime(a[1] ^ a[2]),
                        a[2] ^ t ^ _xtime(a[2] ^ a[3]), a[3] ^ t ^ _xtime(a[3] ^ a[0])]
            s = out
        s = [b ^ k for b, k in zip(s, rk[rnd])]
    return bytes(s)


def selftest():
    # FIPS-197 Appendix C.1
    key = bytes(range(16))
    pt = bytes.fromhex('00112233445566778899aabbccddeeff')
    assert encrypt_block(key, pt).hex() == '69c4e0d86a7b0430d8cdb78070b4c55a', encrypt_block(key, pt).hex()
    # Appendix B
    key = bytes.fromhex('2b7e151628aed2a6abf7158809cf4f3c')
    pt = bytes.fromhex('3243f6a8885a308d313198a2e0370734')
    assert encrypt_block(key, pt).hex() == '3925841d02dc09fbdc118597196a0b32'


selftest()
