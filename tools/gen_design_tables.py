#!/usr/bin/env python3
"""Rewrite the generated blocks of DESIGN.md (between <!-- gen:NAME --> and <!-- /gen:NAME -->):
findings (from known_findings.json) and the seeded-change table (from seeded/*/meta.json)."""
import json, re, subprocess
from pathlib import Path
ROOT = Path(__file__).resolve().parent.parent
design = (ROOT / 'DESIGN.md').read_text()


def block(name, text):
    global design
    pat = re.compile(rf'(<!-- gen:{name} -->\n).*?(<!-- /gen:{name} -->)', re.S)
    assert pat.search(design), name
    design = pat.sub(lambda m: m.group(1) + text.rstrip('\n') + '\n' + m.group(2), design)


kf = json.loads((ROOT / 'known_findings.json').read_text())['findings']
fixed = [f for f in kf if f['status'] == 'fixed']
known = [f for f in kf if f['status'] == 'known']
subjects = {}
out = subprocess.run(['git', '-C', '/repo', 'log', '--format=%h %s'], capture_output=True, text=True).stdout
for line in out.splitlines():
    h, _, s = line.partition(' ')
    subjects[h] = s
lines = [f'{len(set(f["commit"] for f in fixed))} "fix:" commits in /repo ({len(fixed)} fixed signatures), {len(known)} known-finding signatures.', '',
         '| property | commit | what failed (first signature of the commit) |', '|---|---|---|']
seen = set()
for f in fixed:
    if f['commit'] in seen:
        continue
    seen.add(f['commit'])
    what = f['what'].split(f['commit'], 1)[-1].strip()
    lines.append(f'| {f["property"]} | `{f["commit"]}` {subjects.get(f["commit"], "")[:70]} | {what[:260]} |')
block('fixed', '\n'.join(lines))
lines = ['| property | signature | what fails and why it is recorded rather than repaired |', '|---|---|---|']
for f in known:
    lines.append(f'| {f["property"]} | `{f["signature"]}` | {f["what"][:420]} |')
block('known', '\n'.join(lines))

rows = []
for d in sorted((ROOT / 'seeded').iterdir()):
    mp = d / 'meta.json'
    if not mp.exists():
        continue
    m = json.loads(mp.read_text())
    checks = m.get('checks', [])
    caught = [c for c in checks if c.get('exit') == 1]
    missed = [c for c in checks if c.get('exit') not in (1,)]
    how = '; '.join(f'{c["check"]}: `{(c.get("new_signatures") or "").split(";")[0][:80]}`' + (f' ({c["note"]})' if c.get('note') else '')
                    for c in caught) or 'NOT CAUGHT'
    rows.append(f'| {d.name} | {m.get("summary", "")[:200]} | {how} |')
block('seeds', '\n'.join(['| seeded change | what it does | caught by (first new signature) |', '|---|---|---|'] + rows))
(ROOT / 'DESIGN.md').write_text(design)
print('DESIGN.md tables regenerated:', len(fixed), 'fixed,', len(known), 'known,', len(rows), 'seeds')
