#!/usr/bin/env python3
"""Regenerate MANIFEST.json from props/registry.py (keeps it valid at all times)."""
import json, sys
from pathlib import Path
ROOT = Path(__file__).resolve().parent.parent
sys.path.insert(0, str(ROOT))
from props.registry import CHECKS, NOT_BUILT, ENGINES, NOTES

props = [json.loads(l)['id'] for l in (ROOT / 'properties.jsonl').read_text().splitlines() if l.strip()]
checks = []
for pid in props:
    if pid not in CHECKS:
        continue
    c = CHECKS[pid]
    checks.append({
        'property_id': pid,
        'quick_cmd': f'./check {pid} --tier quick',
        'thorough_cmd': f'./check {pid} --tier thorough',
        'evidence_file': f'evidence/{pid}.json',
        'replay_cmd_template': f'./check {pid} --replay {{path}}',
        'engine': c['engine'],
        'level_claimed': {'category': c.get('category', 'model_checking'), 'text': c['text'],
                          'design_ref': c['design_ref']},
        'level_note': c['note'],
        'technique': c['technique'],
    })
na = [{'property_id': pid, 'reason': NOT_BUILT.get(pid, 'check not built yet; not claimed')}
      for pid in props if pid not in CHECKS]
manifest = {
    'version': 1,
    'setup_cmd': './setup.sh',
    'hooks': {
        'guard': 'DASHLIVE_VERIF',
        'enable': 'no source hooks are needed: all seams are harness-side monkeypatches; ./check exports DASHLIVE_VERIF=1 for uniformity',
        'baseline_off_cmd': 'cd /repo && /venv/bin/python -m pytest -ra -q -p no:cacheprovider --timeout=900 --continue-on-collection-errors',
        'source_commits': [],
        'add_only': True,
    },
    'engines': ENGINES,
    'checks': checks,
    'notes': NOTES,
    'not_applicable': na,
}
(ROOT / 'MANIFEST.json').write_text(json.dumps(manifest, indent=1) + '\n')
print(f'{len(checks)} checks, {len(na)} not claimed')
