#!/bin/bash
# re-run stored seeds against the current checks: every one must still be caught
cd /verif
out=/dev/shm/reseed2_summary.log; : > $out
for d in seeded/*/; do
  n=$(basename $d)
  prop=$(python3 -c "import json;print(json.load(open('$d/meta.json'))['property'])")
  case "$prop" in C01|C03|C05|C08|C15) ;; *) continue;; esac
  if ! git -C /repo apply --check /verif/$d/patch.diff 2>/dev/null; then echo "$n $prop SKIP(patch does not apply)" >> $out; continue; fi
  git -C /repo apply /verif/$d/patch.diff
  checks=$(python3 -c "
import json
m=json.load(open('$d/meta.json'))
cs=[c['check'] for c in m.get('checks',[]) if c.get('exit')==1]
print(' '.join(dict.fromkeys(cs)) or m['property'])")
  caught=0
  for c in $checks; do
    case "$c" in C16|C17) caught=-1; continue;; esac
    VERIF_OUT=/dev/shm/out-reseed ./check $c --no-confirm > /dev/shm/reseed_last.log 2>&1; rc=$?
    if [ $rc -eq 1 ]; then caught=1; break; fi
  done
  git -C /repo checkout -- .
  echo "$n $prop checks=[$checks] caught=$caught" >> $out
done
echo DONE >> $out
