#!/bin/bash
cd /verif
rm -f /dev/shm/thorough_summary.log
for c in C04 C20 C13 C11 C10 C07 C06 C12 C14 C09 C05 C03 C15 C18 C08 C19 C16 C17 C02 C01; do
  start=$(date +%s)
  VERIF_REPO=/dev/shm/repo-th3 VERIF_OUT=/dev/shm/out-thorough ./check $c --tier thorough --no-confirm > /dev/shm/th_$c.log 2>&1
  echo "$c rc=$? $(( $(date +%s) - start ))s $(grep 'tier=' /dev/shm/th_$c.log | cut -c1-170)" >> /dev/shm/thorough_summary.log
done
echo DONE >> /dev/shm/thorough_summary.log
