#!/usr/bin/env python3
"""After a history edit in /repo (autosquash of a fixup): map the commit hashes recorded in known_findings.json
to the commits with the same subject on the current branch."""
import json, subprocess
from pathlib import Path
ROOT = Path(__file__).resolve().parent.parent
def git(*a):
    return subprocess.run(['git', '-C', '/repo', *a], capture_output=True, text=True).stdout
cur = {}
for line in git('log', '--format=%h %s').splitlines():
    h, _, s = line.partition(' ')
    cur.setdefault(s, h)
on_branch = set(cur.values())
p = ROOT / 'known_findings.json'
d = json.loads(p.read_text())
n = 0
for f in d['findings']:
    h = f.get('commit')
    if not h or h in on_branch:
        continue
    subj = git('show', '-s', '--format=%s', h).strip()
    new = cur.get(subj)
    if not new:
        print('NOT FOUND', h, subj)
        continue
    f['commit'] = new
    f['what'] = f['what'].replace(h, new)
    n += 1
p.write_text(json.dumps(d, indent=1))
print('remapped', n)
