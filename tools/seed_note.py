#!/usr/bin/env python3
"""tools/seed_note.py <seed> <note>: a seed that a check first missed keeps the record of the miss in its meta.json
(checks = [first run (exit 0), run after strengthening + note])."""
import json
import sys
name, note = sys.argv[1], sys.argv[2]
p = f'/verif/seeded/{name}/meta.json'
m = json.load(open(p))
prop = m['property']
first = {'check': prop, 'exit': 0, 'new_signatures': '', 'note': 'first run: missed'}
chk = [c for c in m['checks'] if not (c.get('exit') == 0 and c.get('note') == 'first run: missed')]
for c in chk:
    if c['exit'] == 1 and 'note' not in c:
        c['note'] = 'after strengthening: ' + note
m['checks'] = [first] + chk
json.dump(m, open(p, 'w'), indent=1)
print(json.dumps(m['checks'], indent=1)[:600])
