#!/bin/bash
cd /verif
rm -f /dev/shm/quick_summary.log
for c in C01 C02 C03 C04 C05 C06 C07 C08 C09 C10 C11 C12 C13 C14 C15 C16 C17 C18 C19 C20; do
  start=$(date +%s)
  ./check $c > /dev/shm/q_$c.log 2>&1
  echo "$c rc=$? $(( $(date +%s) - start ))s $(grep 'tier=' /dev/shm/q_$c.log | cut -c1-170)" >> /dev/shm/quick_summary.log
done
echo DONE >> /dev/shm/quick_summary.log
