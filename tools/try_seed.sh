#!/bin/bash
# tools/try_seed.sh <seed-out-dir> <PROP> [<extra PROP>...]
# 1. confirms the seeded change in a scratch worktree (applies, 87 baseline tests pass, demo fails with / passes without)
# 2. applies it to /repo, runs ./check PROP (quick), reverts /repo
# 3. stores it as /verif/seeded/<name>/ with meta.json extended by what was run and what the checks said
set -u
src="$1"; shift
name="$(basename "$src")"
wt=/tmp/seedcheck-$$
out=/verif/seeded/$name
log=/tmp/try_seed_$name.log
: > $log
git -C /repo worktree add -q --detach $wt HEAD || exit 2
cleanup() { git -C /repo worktree remove --force $wt >/dev/null 2>&1; rm -rf $wt; }
trap cleanup EXIT
if ! git -C $wt apply --check "$src/patch.diff" 2>>$log; then
  if git -C $wt apply --3way "$src/patch.diff" >>$log 2>&1; then echo "applied with 3way"; git -C $wt diff > $src/patch.diff.new; git -C $wt reset -q; else echo "RESULT $name: patch does not apply to current HEAD"; exit 3; fi
else
  git -C $wt apply "$src/patch.diff"
fi
git -C $wt diff > /tmp/seed_patch_$name.diff
tests=$(cd $wt && /venv/bin/python -m pytest -q -p no:cacheprovider --timeout=900 --continue-on-collection-errors 2>&1 | tail -1)
echo "baseline with patch: $tests" | tee -a $log
(cd $wt && PYTHONPATH=$wt:/verif/shims timeout 600 /venv/bin/python "$src/demo.py" >>$log 2>&1); demo_with=$?
git -C $wt checkout -q -- .
(cd $wt && PYTHONPATH=$wt:/verif/shims timeout 600 /venv/bin/python "$src/demo.py" >>$log 2>&1); demo_without=$?
echo "demo exit with patch=$demo_with without=$demo_without" | tee -a $log
case "$tests" in *"87 passed"*) ;; *) echo "RESULT $name: baseline tests do not pass with the patch"; exit 4;; esac
if [ $demo_with -eq 0 ] || [ $demo_without -ne 0 ]; then echo "RESULT $name: demo does not discriminate"; exit 5; fi
# run the checks against /repo with the patch applied
if [ -n "$(git -C /repo status --porcelain)" ]; then echo "/repo not clean"; exit 6; fi
git -C /repo apply /tmp/seed_patch_$name.diff || exit 7
results=""
for prop in "$@"; do
  o=$(cd /verif && ./check $prop --tier quick 2>&1)
  rc=$?
  sigs=$(echo "$o" | grep "^  signature:" | sed 's/^  signature: //' | tr '\n' ';' | tr -d '"\\')
  echo "check $prop rc=$rc signatures=$sigs" | tee -a $log
  results="$results{\"check\":\"$prop\",\"exit\":$rc,\"new_signatures\":\"$sigs\"},"
done
git -C /repo checkout -- .
# evidence files were rewritten by the runs on the patched tree: put the committed ones back
git -C /verif checkout -- evidence 2>/dev/null
mkdir -p $out
cp /tmp/seed_patch_$name.diff $out/patch.diff
cp "$src/demo.py" $out/demo.py
python3 - "$src/meta.json" "$out/meta.json" "$tests" "$demo_with" "$demo_without" "[${results%,}]" <<'PY'
import json,sys
m=json.load(open(sys.argv[1]))
m['confirmed']={'baseline_with_patch':sys.argv[3],'demo_exit_with_patch':int(sys.argv[4]),'demo_exit_without_patch':int(sys.argv[5]),
 'ran':'tools/try_seed.sh: scratch worktree of /repo HEAD; git apply; pytest baseline; demo with/without; then applied to /repo, ./check <id> --tier quick, reverted'}
m['checks']=json.loads(sys.argv[6])
json.dump(m,open(sys.argv[2],'w'),indent=1)
PY
echo "RESULT $name: stored in $out"
