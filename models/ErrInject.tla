-------------------------- MODULE ErrInject --------------------------
(* Injected HTTP errors (property C16): the synthetic error is produced exactly
   for the addressed segment, the configured number of times, and for no other
   request; sessions and media types do not interfere.

   HasFailures = FALSE models "failures not given". `last` records the action and the
   set of outcomes the model allows:
     <<"hit",  session, type, outcome>>   outcome in {"code", "ok"}
     <<"miss", session, type, "ok">>
   A 4xx code, or a 5xx code without a failure count, is produced on every hit.
   With a failure count F a 5xx code is produced for the first F hits of a session
   and type, the next hit is served; afterwards the statement fixes nothing, so the
   model allows both outcomes (and keeps counting them as it pleases). *)
EXTENDS Naturals

CONSTANTS Sessions, Types, Is5xx, HasFailures, Failures, MaxSteps

VARIABLES hits,    \* [session][type] -> number of hits answered with the code so far
          served,  \* [session][type] -> the first post-failure hit has been served
          steps, last

vars == <<hits, served, steps, last>>

Init == /\ hits = [s \in Sessions |-> [t \in Types |-> 0]]
        /\ served = [s \in Sessions |-> [t \in Types |-> FALSE]]
        /\ steps = 0
        /\ last = <<"init">>

Limited == Is5xx /\ HasFailures

Hit(s, t) ==
    \/ /\ ~Limited                                       \* every hit fails
       /\ last' = <<"hit", s, t, "code">>
       /\ UNCHANGED <<hits, served>>
    \/ /\ Limited /\ ~served[s][t] /\ hits[s][t] < Failures
       /\ hits' = [hits EXCEPT ![s][t] = @ + 1]
       /\ last' = <<"hit", s, t, "code">>
       /\ UNCHANGED served
    \/ /\ Limited /\ ~served[s][t] /\ hits[s][t] >= Failures
       /\ served' = [served EXCEPT ![s][t] = TRUE]
       /\ last' = <<"hit", s, t, "ok">>
       /\ UNCHANGED hits
    \/ /\ Limited /\ served[s][t]                        \* afterwards: either
       /\ \/ last' = <<"hit", s, t, "code">>
          \/ last' = <<"hit", s, t, "ok">>
       /\ UNCHANGED <<hits, served>>

Miss(s, t) ==
    /\ last' = <<"miss", s, t, "ok">>
    /\ UNCHANGED <<hits, served>>

Next == /\ steps < MaxSteps
        /\ steps' = steps + 1
        /\ \E s \in Sessions, t \in Types : Hit(s, t) \/ Miss(s, t)

Spec == Init /\ [][Next]_vars

NeverMoreThanConfigured == Limited => \A s \in Sessions, t \in Types : hits[s][t] <= Failures
=====================================================================
