SPECIFICATION Spec
CONSTANTS
  Cookies = {"c1", "c2"}
  Services = {"s1", "s2"}
  Kinds = {"salt", "sig", "trunc"}
  MaxTokens = 2
  MaxSteps = 4
INVARIANT AcceptedAtMostOnce
INVARIANT AcceptedWereIssued
