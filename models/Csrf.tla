---------------------------- MODULE Csrf ----------------------------
(* Life-cycle of CSRF tokens (property C15): a token is accepted at most once,
   only for the service it was issued for, only together with the cookie it was
   issued against, and never after modification.

   `last` is a history variable that records the action taken and the outcome the
   model prescribes; the replayer reads it from the target node of every edge:
     <<"issue", id, cookie, service>>
     <<"use", id, cookie, service, outcome>>  outcome in {"ok", "no"}
     <<"tamper", id, kind, "no">>
   A correct use of a token that was attempted before without being accepted may
   go either way (an implementation is free to burn a token on any attempt), so
   the model branches on both outcomes there; the replayer follows the branch the
   implementation takes. *)
EXTENDS Naturals, FiniteSets, Sequences

CONSTANTS Cookies, Services, Kinds, MaxTokens, MaxSteps

VARIABLES issued,    \* set of records [id, cookie, service]
          attempted, \* ids that were presented at least once
          accepted,  \* ids that were accepted
          count,     \* id -> number of acceptances (for the invariant)
          steps, last

vars == <<issued, attempted, accepted, count, steps, last>>

Ids == 1..MaxTokens

Init == /\ issued = {}
        /\ attempted = {}
        /\ accepted = {}
        /\ count = [i \in Ids |-> 0]
        /\ steps = 0
        /\ last = <<"init">>

Issue(c, s) ==
    /\ Cardinality(issued) < MaxTokens
    /\ LET id == Cardinality(issued) + 1 IN
        /\ issued' = issued \cup {[id |-> id, cookie |-> c, service |-> s]}
        /\ last' = <<"issue", id, c, s>>
    /\ UNCHANGED <<attempted, accepted, count>>

Matches(r, c, s) == r.cookie = c /\ r.service = s

Use(r, c, s) ==
    /\ r \in issued
    /\ attempted' = attempted \cup {r.id}
    /\ \/ /\ Matches(r, c, s) /\ r.id \notin attempted          \* first, correct use: must be accepted
          /\ accepted' = accepted \cup {r.id}
          /\ count' = [count EXCEPT ![r.id] = @ + 1]
          /\ last' = <<"use", r.id, c, s, "ok">>
       \/ /\ ~Matches(r, c, s) \/ r.id \in accepted             \* wrong cookie/service, or re-use: refused
          /\ UNCHANGED <<accepted, count>>
          /\ last' = <<"use", r.id, c, s, "no">>
       \/ /\ Matches(r, c, s) /\ r.id \in attempted /\ r.id \notin accepted   \* after a failed attempt: either
          /\ \/ /\ accepted' = accepted \cup {r.id}
                /\ count' = [count EXCEPT ![r.id] = @ + 1]
                /\ last' = <<"use", r.id, c, s, "ok">>
             \/ /\ UNCHANGED <<accepted, count>>
                /\ last' = <<"use", r.id, c, s, "no">>
    /\ UNCHANGED issued

Tamper(r, k) ==
    /\ r \in issued
    /\ last' = <<"tamper", r.id, k, "no">>
    /\ UNCHANGED <<issued, attempted, accepted, count>>

Next == /\ steps < MaxSteps
        /\ steps' = steps + 1
        /\ \/ \E c \in Cookies, s \in Services : Issue(c, s)
           \/ \E r \in issued, c \in Cookies, s \in Services : Use(r, c, s)
           \/ \E r \in issued, k \in Kinds : Tamper(r, k)

Spec == Init /\ [][Next]_vars

AcceptedAtMostOnce == \A i \in Ids : count[i] <= 1
AcceptedWereIssued == \A i \in accepted : \E r \in issued : r.id = i
=====================================================================
