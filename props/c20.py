"""C20 - the windowed BufferedReader behaves exactly like a slice of the file.

Explicit-state search on the real class: for every geometry (file length,
offset, size, buffer size, cache limit) all operation sequences up to a depth
are applied, de-duplicated on exactly the fields BufferedReader reads, and
compared step by step with a reference stream over file[offset:offset+size].
"""
from __future__ import annotations

import io
import itertools

from mc import core
from mc.explorer import bfs_histories

ID = 'C20'
LEVEL = 'model_checking'
RULE = ('state = (geometry, pos, size, cached bucket keys in eviction order, underlying tell); '
        'every operation of the alphabet applied in every state up to the depth bound; '
        'non-trivial = a (geometry, history) whose last step touched the cache or moved the position '
        'and was compared with the reference slice')
ASSUMPTIONS = [
    'reference model: bytes slice file[offset:offset+size] with clamped positions (written here, not from dashlive)',
    'windows longer than the underlying file are not windows of it and are excluded',
    'reads return bytes (an empty str is not the empty byte string)',
    'for size=None a seek past the end may either clamp or keep the target (size not yet known)',
]


class CountingFile(io.BytesIO):
    """Underlying file that records the byte ranges actually read."""

    def __init__(self, data):
        super().__init__(data)
        self.touched = []

    def read(self, n=-1):
        p = self.tell()
        rv = super().read(n)
        if rv:
            self.touched.append((p, p + len(rv)))
        return rv


class _FakeTime:
    def __init__(self, tick):
        self._tick = tick

    def time(self):
        return next(self._tick)


class Model:
    def __init__(self, window: bytes, known_size: bool):
        self.data = window
        self.pos = 0
        self.known = known_size


def geometries(tier):
    lengths = range(0, 8) if tier == 'quick' else range(0, 10)
    offsets = (0, 1, 3)
    bufsizes = (1, 2, 3, 5, 16) if tier == 'quick' else (1, 2, 3, 4, 5, 16)
    maxbufs = (2, 3)
    for ln in lengths:
        for off in offsets:
            if off > ln:
                continue
            avail = ln - off
            sizes = {None, 0, 1, avail, max(0, avail - 1), max(0, avail - 2)}
            sizes = sorted((s for s in sizes if s is None or s <= avail), key=lambda s: (-1 if s is None else s))
            for size in sizes:
                for bs in bufsizes:
                    for mb in maxbufs:
                        yield (ln, off, size, bs, mb, False)
    # the data= constructor (whole buffer cached)
    for ln in (0, 1, 5):
        yield (ln, 0, None, 0, 0, True)


def op_alphabet(bs, size_hint):
    ops = []
    for n in sorted({-1, 0, 1, 2, max(bs - 1, 0), bs, bs + 1, 100}):
        ops.append(('read', n))
    for n in sorted({1, 2, bs, bs + 1, 100} - {0}):
        ops.append(('peek', n))
    sz = size_hint
    for o in sorted({-100, -1, 0, 1, max(sz - 1, 0), sz, sz + 1, 100}):
        for wh in (0, 1, 2):
            ops.append(('seek', o, wh))
    ops.append(('tell',))
    ops.append(('readall',))
    return ops


def file_bytes(ln):
    return bytes(range(0x41, 0x41 + ln))


def make_builder(geom):
    ln, off, size, bs, mb, use_data = geom
    from dashlive.utils import buffered_reader as br
    data = file_bytes(ln)
    window = data[off:] if size is None else data[off:off + size]

    def build():
        tick = itertools.count(1)
        br.time = _FakeTime(tick)                  # LRU timestamps: a counter (module-local seam)
        if use_data:
            impl = br.BufferedReader(None, data=data)
            f = None
        else:
            f = CountingFile(data)
            impl = br.BufferedReader(f, buffersize=bs, offset=off, size=size, max_buffers=mb)
        return [impl, Model(window, size is not None or use_data), f]
    return build, window


def canon(pair):
    impl, model, f = pair
    bufs = tuple(k for k, v in sorted(impl.buffers.items(), key=lambda kv: kv[1].timestamp))
    return (impl.pos, impl.size, bufs, f.tell() if f is not None else -1, impl.num_buffers)


def norm(rv):
    if isinstance(rv, (bytearray, memoryview)):
        return bytes(rv)
    return rv


def step(pair, op, geom=None):
    """Apply op to impl and model; return None or a (kind, text) violation."""
    impl, m, f = pair
    L = len(m.data)
    kind = op[0]
    try:
        if kind in ('read', 'readall'):
            n = -1 if kind == 'readall' else op[1]
            before = impl.tell()
            rv = norm(impl.readall() if kind == 'readall' else impl.read(n))
            start = min(m.pos, L)
            want = m.data[start:] if n < 0 else m.data[start:start + n]
            if rv != want:
                return (f'{kind}-data', f'{op} at pos {m.pos}: got {rv!r}, window slice is {want!r}')
            m.pos = m.pos + len(want) if m.pos <= L else m.pos
            if impl.tell() != m.pos:
                return (f'{kind}-position', f'{op} from pos {before}: tell()={impl.tell()} but '
                        f'{len(want)} bytes were returned (expected {m.pos})')
        elif kind == 'peek':
            n = op[1]
            rv = norm(impl.peek(n))
            start = min(m.pos, L)
            want = m.data[start:start + n]
            if not isinstance(rv, bytes) or rv[:len(want)] != want or len(rv) < len(want):
                return ('peek-data', f'{op} at pos {m.pos}: got {rv!r}, needs to start with {want!r}')
            if impl.tell() != m.pos:
                return ('peek-moved', f'{op}: position moved to {impl.tell()} (was {m.pos})')
        elif kind == 'seek':
            _, o, wh = op
            rv = impl.seek(o, wh)
            base = {0: 0, 1: m.pos, 2: L}[wh]
            target = base + o
            clamped = max(0, min(target, L))
            if m.known or wh == 2:
                ok = {clamped}
            else:
                ok = {clamped, max(0, target)}
            if rv not in ok or impl.tell() != rv:
                return ('seek-position', f'{op} from pos {m.pos} (window {L}): returned {rv}, '
                        f'tell()={impl.tell()}, expected {sorted(ok)}')
            m.pos = rv
            if wh == 2:
                m.known = True
        elif kind == 'tell':
            if impl.tell() != m.pos:
                return ('tell', f'tell()={impl.tell()} expected {m.pos}')
    except Exception as e:  # the reference stream never raises for these ops
        return (f'{kind}-raises-{type(e).__name__}', f'{op} at pos {m.pos}: {type(e).__name__}: {e}')
    if f is not None and geom is not None:
        ln, off, size, bs, mb, _ = geom
        lo = off
        hi = ln if size is None else off + size
        for a, b in f.touched:
            # buffers are filled in whole buckets, so only bytes *returned* are
            # policed above; here: the underlying file is never read before the window
            if a < lo:
                return ('read-before-window', f'{op}: underlying file read at [{a},{b}) before window start {lo}')
        f.touched.clear()
    return None


def explore_geometry(arg):
    geom, depth = arg
    acc = core.Acc()
    build, window = make_builder(geom)
    ln, off, size, bs, mb, use_data = geom
    ops = op_alphabet(bs if not use_data else max(ln, 1), len(window))

    def st(pair, op):
        return step(pair, op, geom)

    def enabled(pair):
        m = pair[1]
        if m.known:
            return ops
        L = len(m.data)
        # size not yet known: a seek beyond the (unknown) end cannot be clamped; outside the property
        return [o for o in ops if not (o[0] == 'seek' and o[2] in (0, 1) and
                                       ({0: 0, 1: m.pos}[o[2]] + o[1]) > L)]

    res = bfs_histories(build, enabled, st, canon, depth)
    acc.count('transitions', res['transitions'])
    acc.count('evaluations', res['transitions'])
    acc.count('traces', res['states'])
    acc.count('geometries')
    for k in res['state_keys']:
        acc.state((geom, k))
        if k[2]:      # something cached: the window was really read
            acc.nontriv((geom, k))
    acc.outcome(res['states'])
    acc.notes['depth_completed'] = res['depth_completed']
    for hist, op, (kind, text) in res['violations']:
        sig = f'C20|{kind}|size={"none" if size is None else "explicit"}|data_ctor={int(use_data)}'
        acc.violation(sig, f'geometry(len,off,size,bufsize,maxbuf,data)={geom} history={list(hist)} then {text}',
                      {'geom': list(geom), 'history': [list(h) for h in hist] + [list(op)]})
    if res['states'] > 1:
        acc.sample({'geometry': dict(file_len=ln, offset=off, size=size, buffersize=bs, max_buffers=mb,
                                     data_ctor=use_data),
                    'states': res['states'], 'transitions': res['transitions'],
                    'depth_completed': res['depth_completed']})
    return acc


def run(ctx):
    depth = 4 if ctx.quick else 8
    geoms = list(geometries(ctx.tier))
    results = ctx.pmap(explore_geometry, [(g, depth) for g in geoms], chunksize=4)
    ctx.merge_all(results)
    ctx.extra.update(depth_bound=depth, geometries=len(geoms),
                     alphabet={'read': 'n in {-1,0,1,2,bs-1,bs,bs+1,100}', 'peek': 'n in {1,2,bs,bs+1,100}',
                               'seek': 'o in {-100,-1,0,1,size-1,size,size+1,100} x {SET,CUR,END}',
                               'other': ['tell', 'readall']},
                     levels_completed=f'all histories to depth {depth} for every geometry')


def replay(record):
    geom = tuple(record['geom'])
    build, _ = make_builder(geom)
    pair = build()
    out = []
    ln, off, size, bs, mb, use_data = geom
    for op in record['history']:
        v = step(pair, tuple(op), geom)
        if v is not None:
            kind, text = v
            out.append((f'C20|{kind}|size={"none" if size is None else "explicit"}|data_ctor={int(use_data)}', text))
            break
    return out
