"""C12 - multi-period presentations tile the timeline and play the right media.

Bounded-exhaustive generation of multi-period definitions (1-3 periods over
fixture and synthetic streams, start offsets and durations on and off segment
boundaries, track subsets) x mode x option level 1 x clocks; every definition
is created in the real store, its manifests are read independently and every
segment number a Period admits is fetched and compared with the stored bytes.
"""
from __future__ import annotations

import datetime
import hashlib
import itertools
from fractions import Fraction

from mc import bmff, core, crawl, mpd, world as W
from props import c01

ID = 'C12'
LEVEL = 'model_checking'
PREFORK_WORLD = {}
RULE = ('state = (definition, mode, option vector, clock, period, representation, segment number); every definition '
        'of the generator x every admitted number is requested; non-trivial = a 200 segment whose payload was matched '
        'against the stored file and whose decode time was checked')
ASSUMPTIONS = [
    'expected source segment for number n: the stored segment whose start is nearest the Period source offset, plus '
    '(n - startNumber); ties (offset exactly between two starts) accept either neighbour',
    'admitted numbers: (n - startNumber) x duration / timescale < Period duration (5.3.9.5.3 on the served document)',
    'live: Periods must cover [now - timeShiftBufferDepth, now]; ids unique',
]
UTC = datetime.timezone.utc
TD = datetime.timedelta
NOW_VOD = datetime.datetime(2024, 3, 1, 12, 0, 3, 500000, tzinfo=UTC)
AST = datetime.datetime(2024, 3, 1, 0, 0, 0, tzinfo=UTC)

SEG = {'bbb': 4.0, 'tears': 4.0, 'synirr': 2.5, 'synnum': 2.0}
LAST = {'bbb': 36.0, 'tears': 60.0, 'synirr': 9.0, 'synnum': 8.0}
TOTAL = {'bbb': 40.0, 'tears': 64.0, 'synirr': 13.0, 'synnum': 10.0}


def definitions(tier):
    """-> list of period lists: dict(stream, start, duration, tracks)"""
    out = []
    streams = ('bbb', 'tears', 'synirr')
    period_choices = []
    for s in streams:
        seg = SEG[s]
        for start in (0.0, seg, 1.5 * seg, LAST[s] - seg):
            for dur in (2 * seg, 2.5 * seg, 'end'):
                d = TOTAL[s] - start if dur == 'end' else dur
                if start + d > TOTAL[s] + 1e-9 or d <= 0:
                    continue
                period_choices.append((s, start, d))
    tracksets = ([('video', 1)], [('video', 1), ('audio', 2)])
    # single-period definitions: every choice x track set
    for pc in period_choices:
        for ts in tracksets:
            out.append([dict(stream=pc[0], start=pc[1], duration=pc[2], tracks=ts)])
    # a source whose fragments are not numbered from 1 (synnum: 7..11): $Number$ counts from the Period start all the same
    for start, dur in ((0.0, 10.0), (2.0, 6.0), (3.0, 4.0)):
        out.append([dict(stream='synnum', start=start, duration=dur, tracks=[('video', 1), ('audio', 2)])])
    out.append([dict(stream='synnum', start=4.0, duration=4.0, tracks=[('video', 1), ('audio', 2)]),
                dict(stream='bbb', start=8.0, duration=8.0, tracks=[('video', 1), ('audio', 2)])])
    # Period durations that sum to a fraction of a second
    out.append([dict(stream='bbb', start=0.0, duration=12.5, tracks=[('video', 1), ('audio', 2)]),
                dict(stream='tears', start=8.0, duration=8.0, tracks=[('video', 1), ('audio', 2)])])
    out.append([dict(stream='bbb', start=4.0, duration=6.25, tracks=[('video', 1), ('audio', 2)])])
    # a text track, which has fewer and longer segments than the timing reference of its stream (bbb_t1: 4 x 10 s)
    for start, dur in ((0.0, 40.0), (10.0, 20.0), (4.0, 12.0)):
        out.append([dict(stream='bbb', start=start, duration=dur, tracks=[('video', 1), ('audio', 2), ('text', 4)])])
    # two and three periods: pairs/triples over a reduced set (all ordered pairs of distinct "interesting" choices)
    core_choices = [pc for pc in period_choices if pc[1] in (0.0, 1.5 * SEG[pc[0]]) and pc[2] != TOTAL[pc[0]] - pc[1]]
    if tier == 'quick':
        core_choices = core_choices[::2]
    for a, b in itertools.permutations(core_choices, 2):
        out.append([dict(stream=a[0], start=a[1], duration=a[2], tracks=tracksets[1]),
                    dict(stream=b[0], start=b[1], duration=b[2], tracks=tracksets[1])])
    trip = core_choices[:4] if tier == 'quick' else core_choices[:6]
    for a, b, c in itertools.permutations(trip, 3):
        out.append([dict(stream=x[0], start=x[1], duration=x[2], tracks=tracksets[1]) for x in (a, b, c)])
    return out


def sig(*p):
    return 'C12|' + '|'.join(str(x) for x in p)


_idx: dict = {}


def payload_index(stream, fname):
    key = (stream, fname)
    if key not in _idx:
        st = crawl.Stored.fixture(stream)
        f = st.files[fname]
        idx = {}
        for s in f['segs']:
            pl = f['data'][s['payload_start']:s['payload_start'] + s['payload_len']]
            idx.setdefault(hashlib.blake2b(pl, digest_size=12).digest(), []).append(s['index'])
        _idx[key] = idx
    return _idx[key]


OTHER_TEMPLATES = ('manifest_a', 'manifest_b', 'manifest_e', 'manifest_ef', 'manifest_h', 'manifest_i', 'manifest_n')


def execute(item):
    di, periods, mode, opts, clock_offsets = item[:5]
    template = item[5] if len(item) > 5 else 'hand_made'
    w = W.World.shared()
    w.begin_item()
    acc = core.Acc()
    name = f'mpsx{di}'
    try:
        with w.appctx():
            w.add_mps(name, [dict(pid=f'p{i + 1}', **p) for i, p in enumerate(periods)])
            mps = w.models.MultiPeriodStream.get(name=name)
            ppk = {p.pid: (p.pk, p.stream.directory, p.start.total_seconds(), p.duration.total_seconds())
                   for p in mps.periods}
            w.models.db.session.remove()
        total = sum(p['duration'] for p in periods)
        for off in clock_offsets:
            if mode == 'vod':
                now = NOW_VOD
                q = dict(opts)
            else:
                now = AST + TD(seconds=off)
                q = dict(opts, start=crawl.iso(AST), depth='30')
            run_manifest(w, acc, name, periods, ppk, mode, q, now, total, template)
    finally:
        w.reset()
    return acc


def run_manifest(w, acc, name, periods, ppk, mode, q, now, total, template='hand_made'):
    url = crawl.manifest_url(mode, name, template, q, mps=True)
    W.set_now(now)
    r = w.get(url)
    acc.count('evaluations')
    acc.count('transitions')
    acc.outcome(('manifest', mode, r.status))
    rec = {'periods': periods, 'mode': mode, 'q': q, 'now': crawl.iso(now), 'template': template}
    shape = f'{len(periods)}p'

    def bad(clause, text, **kw):
        acc.violation(sig(clause, mode), f'{url} at {crawl.iso(now)} periods={brief(periods)}: {text}', dict(rec, **kw))
    if r.status >= 500 or r.exc:
        bad('manifest-5xx|' + W.crash_signature(r.exc), f'status {r.status}')
        return
    if r.status != 200:
        return
    try:
        doc = mpd.Mpd(r.body, 'http://localhost' + url.split('?')[0])
    except Exception as e:
        bad('manifest-unreadable', f'{type(e).__name__}: {e}')
        return
    acc.count('traces')
    if template != 'hand_made':
        # the templates written for single-period streams: one structural fact is judged (is this a document of as many
        # Periods as were defined); what else is wrong with such a document follows from it
        acc.nontriv((tuple(brief(periods)), mode, template))
        if len(periods) > 1 and len(doc.periods) == 1:
            bad('single-period-template', f'{template} renders one Period for a definition of {len(periods)} Periods '
                f'(its media URLs are those of the first Period only)')
        return
    # period chain
    ids = [p.id for p in doc.periods]
    if len(ids) != len(set(ids)):
        bad('period-ids', f'Period ids {ids}')
    prev_end = None
    for p in doc.periods:
        if prev_end is not None and p.start != prev_end:
            bad('periods-not-contiguous', f'Period {p.id} starts at {float(p.start)}, previous ended at {float(prev_end)}')
        prev_end = None if p.duration is None else p.start + p.duration
    if mode == 'vod':
        if len(doc.periods) != len(periods):
            bad('period-count', f'{len(doc.periods)} Periods for {len(periods)} defined')
        ds = [p.duration for p in doc.periods]
        if all(d is not None for d in ds) and doc.mpd_duration is not None and sum(ds) != doc.mpd_duration:
            bad('sum-of-periods', f'Period durations sum to {float(sum(ds))} s, mediaPresentationDuration is '
                f'{float(doc.mpd_duration)} s')
        if all(d is not None for d in ds) and abs(float(sum(ds)) - total) > 0.0005:
            bad('period-durations', f'Period durations sum to {float(sum(ds))} s, definition totals {total} s')
    else:
        if doc.ast is not None and doc.periods:
            T = Fraction(int((now - doc.ast) / TD(microseconds=1)), 10 ** 6)
            lo = T - (doc.tsbd or 0)
            first = doc.periods[0]
            last = doc.periods[-1]
            if first.start > max(lo, 0):
                bad('window-not-covered|start', f'first Period starts at {float(first.start)} s, window starts at {float(lo)} s')
            if last.duration is not None and last.start + last.duration < T:
                bad('window-not-covered|end', f'last Period ends at {float(last.start + last.duration)} s, now is {float(T)} s')
    # per period media
    for p in doc.periods:
        base_pid = p.id.split('_')[0]
        if base_pid not in ppk:
            bad('unknown-period-id', f'Period id {p.id}')
            continue
        # every track the definition gives the Period is there, with something to play (a track that only exists in the
        # clear is played from its clear file when DRM is requested)
        try:
            defined = periods[int(base_pid[1:]) - 1]['tracks']
        except (ValueError, IndexError):
            defined = []
        for ctype, _tid in defined:
            if not any(rep.content_type == ctype for rep in p.reps):
                bad(f'defined-track-missing|{ctype}', f'Period {p.id}: the definition has a {ctype} track, the manifest lists no '
                    f'{ctype} Representation ({sorted(rep.id for rep in p.reps)})')
        pk, stream, src_off, pdur_def = ppk[base_pid]
        st = crawl.Stored.fixture(stream)
        pdur = p.duration
        for rep in p.reps:
            if rep.id not in st.files or rep.template is None:
                continue
            f = st.files[rep.id]
            kind = rep.content_type
            iu = rep.init_url()
            if iu:
                ir = w.get(mpd.split_url(iu))
                acc.count('evaluations')
                acc.count('transitions')
                if ir.status != 200:
                    bad(f'init|{kind}', f'{mpd.split_url(iu)} answered {ir.status}', rep=rep.id)
            ts = rep.timescale
            d = rep.template.geti('duration')
            sn = rep.template.geti('startNumber', 1)
            if rep.template.timeline and rep.uses_time():
                # time addressing: every entry the Period lists is retrievable (init + "every segment ... is retrievable")
                prev = None
                t_first = rep.template.timeline[0][0]
                for (t_, d_) in rep.template.timeline[:40]:
                    if pdur is not None and Fraction(t_ - t_first, ts) >= pdur:
                        break           # the Period ends before this entry starts: its duration does not admit it
                    if mode == 'live':
                        T = Fraction(int((now - doc.ast) / TD(microseconds=1)), 10 ** 6)
                        # (S@t - presentationTimeOffset counts from the start of the Period)
                        if p.start + Fraction(t_ + d_ - rep.template.geti('presentationTimeOffset', 0), ts) > T:
                            break           # not complete yet
                    tr = w.get(mpd.split_url(rep.media_url(time=t_, number=sn)))
                    acc.count('evaluations')
                    acc.count('transitions')
                    acc.state((tuple(brief(periods)), mode, crawl.iso(now), p.id, rep.id, 'time', t_))
                    if tr.status != 200:
                        durs = {sg['duration'] for sg in f['segs'][:-1]}
                        layout = 'regular-durations' if len(durs) <= 1 else 'irregular-durations'
                        bad(f'time-entry-not-served|{kind}|status={tr.status}|{layout}', f'{p.id}/{rep.id} $Time$={t_} (listed in the '
                            f'SegmentTimeline of the Period) answered {tr.status}', rep=rep.id)
                        prev = None
                        continue
                    acc.nontriv((tuple(brief(periods)), mode, p.id, rep.id, 'time', t_))
                    try:
                        fr = bmff.Fragment(tr.body, f['init'])
                    except bmff.Malformed as e:
                        bad(f'malformed|{kind}', f'{rep.id} $Time$={t_}: {e}', rep=rep.id)
                        prev = None
                        continue
                    # (the statement speaks of segment numbers: how the served decode times relate to the listed times
                    # is not demanded here, only counted)
                    tf = fr.tfdt['base_media_decode_time'] if fr.tfdt else None
                    if prev is not None and tf is not None and tf != prev:
                        acc.outcome('time-addressed-run-not-gapless')
                    prev = tf + fr.duration if (tf is not None and fr.duration is not None) else None
                continue
            if not d or not rep.uses_number():
                continue
            starts, tot = st.seg_starts(rep.id)
            src = Fraction(src_off).limit_denominator(10 ** 6)
            dist = [abs(s - src) for s in starts]
            best = min(dist)
            cand0 = [i + 1 for i, x in enumerate(dist) if x == best]
            if pdur is None:
                T = Fraction(int((now - doc.ast) / TD(microseconds=1)), 10 ** 6)
                limit = T - p.start
            else:
                limit = pdur
            if mode == 'live':
                T = Fraction(int((now - doc.ast) / TD(microseconds=1)), 10 ** 6)
                limit = min(limit, T - p.start)
            count = 0
            k = 0
            expect_t = None
            while Fraction(k * d, ts) < limit and k < 64:
                if mode == 'live' and Fraction((k + 1) * d, ts) > (T - p.start):
                    break       # not yet complete
                n = sn + k
                path = mpd.split_url(rep.media_url(number=n))
                sr = w.get(path)
                acc.count('evaluations')
                acc.count('transitions')
                acc.state((tuple(brief(periods)), mode, crawl.iso(now), p.id, rep.id, n))
                beyond = all(c + k > len(f['segs']) for c in cand0)
                if sr.status != 200:
                    if beyond and sr.status == 404:
                        acc.outcome('beyond-source-404')
                    elif mode == 'live' and sr.status == 404:
                        acc.outcome('live-404')     # availability is C01's subject
                    else:
                        bad(f'segment-not-served|{kind}|status={sr.status}', f'{p.id}/{rep.id} $Number$={n} (k={k}, '
                            f'admitted by the Period duration {float(limit)} s) answered {sr.status}', rep=rep.id)
                    k += 1
                    continue
                if beyond:
                    bad(f'beyond-source-served|{kind}', f'{p.id}/{rep.id} $Number$={n} lies beyond the end of the source '
                        f'({len(f["segs"])} segments) but answered 200', rep=rep.id)
                    k += 1
                    continue
                try:
                    frag = bmff.Fragment(sr.body, f['init'])
                except bmff.Malformed as e:
                    bad(f'malformed|{kind}', f'{path}: {e}', rep=rep.id)
                    k += 1
                    continue
                got = payload_index(stream, rep.id).get(hashlib.blake2b(frag.payload, digest_size=12).digest())
                want = [c + k for c in cand0]
                acc.nontriv((tuple(brief(periods)), mode, p.id, rep.id, n))
                if not got:
                    bad(f'payload-unknown|{kind}', f'{p.id}/{rep.id} $Number$={n}: payload matches no stored segment', rep=rep.id)
                elif not (set(got) & set(want)):
                    bad(f'wrong-source-segment|{kind}', f'{p.id}/{rep.id} $Number$={n} (k={k}): delivers stored segment '
                        f'{got}, expected {want} (source offset {src_off} s, nearest start is segment {cand0})', rep=rep.id)
                tf = frag.tfdt['base_media_decode_time'] if frag.tfdt else None
                if tf is not None and frag.duration is not None:
                    if k == 0 and tf != 0:
                        bad(f'first-tfdt|{kind}', f'{p.id}/{rep.id} $Number$={n}: decode time {tf} at the Period start '
                            f'(expected 0)', rep=rep.id)
                    if expect_t is not None and tf != expect_t:
                        bad(f'gap|{kind}', f'{p.id}/{rep.id} $Number$={n}: decode time {tf}, previous segment ended at '
                            f'{expect_t}', rep=rep.id)
                    expect_t = tf + frag.duration
                if frag.mfhd['sequence_number'] != n:
                    bad(f'sequence|{kind}', f'{p.id}/{rep.id} $Number$={n} carries sequence {frag.mfhd["sequence_number"]}', rep=rep.id)
                count += 1
                k += 1
            # requests by time: beyond the end of the source media (vod; the Period can not be longer than what is left
            # of the source after its offset)
            if mode == 'vod':
                left = tot - src          # seconds of source after the Period's offset
                ext = {'video': 'm4v', 'audio': 'm4a'}.get(kind, 'mp4')
                for beyond_s in (left - Fraction(1, ts), left + Fraction(d, ts), left + 10 * Fraction(d, ts), Fraction(2 ** 32, ts)):
                    # (the first one is the exact end of the source: one tick before it, plus the tick added below)
                    tb = int(beyond_s * ts) + 1
                    tr = w.get(f'/mps/{mode}/{name}/{pk}/{rep.id}/time/{tb}.{ext}')
                    acc.count('evaluations')
                    acc.count('transitions')
                    if tr.status == 200:
                        bad(f'beyond-source-served-by-time|{kind}', f'{p.id}/{rep.id} $Time$={tb} ({float(beyond_s):.2f} s into the Period, '
                            f'the source has {float(left):.2f} s left after the Period offset) answered 200', rep=rep.id)
                    elif tr.status >= 500:
                        bad(f'beyond-source-5xx|{kind}', f'{p.id}/{rep.id} $Time$={tb} answered {tr.status} {W.crash_signature(tr.exc)}', rep=rep.id)
            # past the end of the source
            nend = sn + (len(f['segs']) - min(cand0)) + 1
            er = w.get(mpd.split_url(rep.media_url(number=nend + 1)))
            acc.count('evaluations')
            acc.count('transitions')
            if er.status == 200 and mode == 'vod':
                bad(f'beyond-source-served|{kind}', f'{p.id}/{rep.id} $Number$={nend + 1} (past the end of the source) '
                    f'answered 200', rep=rep.id)
            elif er.status >= 500:
                bad(f'beyond-source-5xx|{kind}', f'{p.id}/{rep.id} $Number$={nend + 1} answered {er.status} '
                    f'{W.crash_signature(er.exc)}', rep=rep.id)
    # a period of another mps on this mps' route
    other = w.get(f'/mps/{mode}/{name}/1/bbb_v7/init.m4v')
    acc.count('evaluations')
    if other.status == 200:
        with w.appctx():
            p1 = w.models.Period.get(pk=1)
            foreign = p1 is not None and p1.parent.name != name
        if foreign:
            bad('foreign-period-served', f'/mps/{mode}/{name}/1/... (a Period of another multi-period stream) answered 200')


def brief(periods):
    return [f"{p['stream']}@{p['start']}+{p['duration']}/{len(p['tracks'])}t" for p in periods]


def run(ctx):
    defs = definitions(ctx.tier)
    items = []
    for di, periods in enumerate(defs):
        total = sum(p['duration'] for p in periods)
        items.append((di, periods, 'vod', {}, [0]))
        if ctx.quick and di % 3 and total == int(total):
            continue
        offs = [total * 0.4, total + 1.0, 3 * total + 0.5 * periods[0]['duration']]
        if total != int(total):
            offs.append(57 * total + 3.0)       # many repetitions later: a rounding of the total would have added up
        if not ctx.quick:
            offs += [total - 0.000001, 2 * total + periods[0]['duration'] + 0.000001, 45.0]
        items.append((di, periods, 'live', {}, offs))
        if not ctx.quick or di % 6 == 0:
            items.append((di, periods, 'vod', {'timeline': '1'}, [0]))
            items.append((di, periods, 'live', {'timeline': '1'}, offs[:2]))
        if not ctx.quick:
            items.append((di, periods, 'vod', {'drm': 'all'}, [0]))
        elif any(t[0] == 'text' for p in periods for t in p['tracks']) or \
                (len(periods) == 2 and {p['stream'] for p in periods} == {'bbb', 'tears'} and di % 2 == 0):
            # DRM requested for a presentation some of whose tracks only exist in the clear (subtitles, tears)
            items.append((di, periods, 'vod', {'drm': 'playready'}, [0]))
            items.append((di, periods, 'live', {'drm': 'all'}, [total * 0.4]))
    # the other manifest templates on the multi-period route
    multis = [(di, p) for di, p in enumerate(defs) if len(p) >= 2][:: (12 if ctx.quick else 4)]
    for di, periods in multis:
        total = sum(p['duration'] for p in periods)
        for template in OTHER_TEMPLATES:
            items.append((di, periods, 'vod', {}, [0], template))
            items.append((di, periods, 'live', {}, [total * 0.4, total + 1.0], template))
    ctx.merge_all(ctx.pmap(execute, items, chunksize=2))
    ctx.extra.update(definitions=len(defs), work_items=len(items),
                     generator='periods over {bbb, tears, synirr} x start {0, 1 seg, 1.5 seg, last-1 seg} x duration '
                               '{2 seg, 2.5 seg, to end} x track sets {v, v+a}; all singles, ordered pairs and triples '
                               'of a reduced set',
                     levels_completed='every generated definition x vod' + (' x live at 3 clocks (every third definition)'
                                                                            if ctx.quick else ' x live at 6 clocks x drm=all'))


def replay(record):
    periods = record['periods']
    for p in periods:
        p['tracks'] = [tuple(t) for t in p['tracks']]
    now = datetime.datetime.fromisoformat(record['now'].replace('Z', '+00:00'))
    w = W.World.shared()
    acc = core.Acc()
    name = 'mpsreplay'
    try:
        with w.appctx():
            w.add_mps(name, [dict(pid=f'p{i + 1}', **p) for i, p in enumerate(periods)])
            mps = w.models.MultiPeriodStream.get(name=name)
            ppk = {p.pid: (p.pk, p.stream.directory, p.start.total_seconds(), p.duration.total_seconds())
                   for p in mps.periods}
            w.models.db.session.remove()
        run_manifest(w, acc, name, periods, ppk, record['mode'], record['q'], now, sum(p['duration'] for p in periods),
                     record.get('template', 'hand_made'))
    finally:
        w.reset()
    # the mps name is part of the URL in the text but not of the signature
    return [(s, v[0]['what']) for s, v in acc.viol.items()]
