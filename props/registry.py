"""Per-property metadata that MANIFEST.json is generated from."""

ENGINES = [
    {'name': 'explorer', 'path': 'mc/explorer.py',
     'serves_properties': ['C19', 'C20'],
     'kind_free_text': 'explicit-state BFS over operation histories of the real object (rebuild + replay), '
                       'canonical-state de-duplication, deviation-level product enumeration'},
]

NOTES = ('Model checking of a sequential, deterministic code base: explicit-state exploration of the real '
         'implementation and bounded-exhaustive enumeration of finite alphabets against independent reference '
         'models (see DESIGN.md). No sampling; VERIF_SEED only permutes the order work is handed to workers.')

CHECKS = {
    'C20': dict(
        engine='explorer',
        technique='explicit-state BFS of BufferedReader operation histories vs reference slice model',
        design_ref='DESIGN.md §7 C20',
        text='Every sequence of read/peek/seek/tell/readall operations up to depth 4 (quick) / 6 (thorough) is '
             'applied to the real BufferedReader for every small geometry (file length 0-9, offset, explicit or '
             'unknown size, buffer sizes 1-5 and 16, cache limits 2-3, data= constructor), states de-duplicated on '
             'exactly the fields the class reads, each step compared with a reference slice model. Exhaustive '
             'within those bounds, which cover every bucket/window alignment and every eviction order.',
        note='Reference model written in /verif; windows longer than the file and seeks past an unknown end are '
             'outside the property and excluded; time.time in the module is replaced by a counter.'),
}

CHECKS['C19'] = dict(
    engine='explorer',
    technique='bounded-exhaustive enumeration of value alphabets vs exact ISO-8601 reference parsers',
    design_ref='DESIGN.md §7 C19',
    text='Every microsecond fraction (thorough: all 10^6; quick: all rounding-boundary residues and all >= .999) '
         'x 9 whole-second parts x 3 input forms is rendered by toIsoDuration and judged by an independent exact '
         'xs:duration parser (lexical form, field ranges, value within 0.5 ms) and by the repository parser; '
         'date-times over 105 UTC offsets x 6 dates x boundary microseconds (+ every microsecond of a second at '
         '2/6 offsets); tick conversions over 20 timescales x 5010 timecodes in both directions against Fraction '
         'arithmetic. The spaces are finite and enumerated completely.',
    note='Exactness oracle = mc/iso8601.py + fractions.Fraction; tolerance 0.5 ms + 1 ns for float noise; '
         'timescales > 10^6 cannot round-trip through timedelta (known finding).')

NOT_BUILT = {}
