"""Per-property metadata that MANIFEST.json is generated from."""

ENGINES = [
    {'name': 'explorer', 'path': 'mc/explorer.py',
     'serves_properties': ['C20'],
     'kind_free_text': 'explicit-state BFS over operation histories of the real object (rebuild + replay), '
                       'canonical-state de-duplication, deviation-level product enumeration'},
]

NOTES = ('Model checking of a sequential, deterministic code base: explicit-state exploration of the real '
         'implementation and bounded-exhaustive enumeration of finite alphabets against independent reference '
         'models (see DESIGN.md). No sampling; VERIF_SEED only permutes the order work is handed to workers.')

CHECKS = {
    'C20': dict(
        engine='explorer',
        technique='explicit-state BFS of BufferedReader operation histories vs reference slice model',
        design_ref='DESIGN.md §7 C20',
        text='Every sequence of read/peek/seek/tell/readall operations up to depth 4 (quick) / 6 (thorough) is '
             'applied to the real BufferedReader for every small geometry (file length 0-9, offset, explicit or '
             'unknown size, buffer sizes 1-5 and 16, cache limits 2-3, data= constructor), states de-duplicated on '
             'exactly the fields the class reads, each step compared with a reference slice model. Exhaustive '
             'within those bounds, which cover every bucket/window alignment and every eviction order.',
        note='Reference model written in /verif; windows longer than the file and seeks past an unknown end are '
             'outside the property and excluded; time.time in the module is replaced by a counter.'),
}

NOT_BUILT = {}
