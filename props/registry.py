"""Per-property metadata that MANIFEST.json is generated from."""

ENGINES = [
    {'name': 'explorer+tlc', 'path': 'mc/tlc.py',
     'serves_properties': ['C15', 'C16'],
     'kind_free_text': 'TLC (TLA+) explicit-state model checking of models/*.tla; the dumped labelled state graph is '
                       'replayed against the implementation: all paths up to a length and all edges (mc/tlc.py)'},
    {'name': 'crawler', 'path': 'mc/crawl.py',
     'serves_properties': ['C01', 'C02', 'C03', 'C05', 'C06', 'C07', 'C08', 'C10', 'C12', 'C13', 'C14', 'C18'],
     'kind_free_text': 'in-process world (mc/world.py: real Flask app, virtual clock, snapshots) + independent MPD '
                       'reader (mc/mpd.py) + independent ISO-BMFF reader (mc/bmff.py) + synthetic media writer '
                       '(mc/synth.py); clock transition system over critical instants'},
    {'name': 'explorer', 'path': 'mc/explorer.py',
     'serves_properties': ['C04', 'C08', 'C09', 'C11', 'C17', 'C19', 'C20'],
     'kind_free_text': 'explicit-state BFS over operation histories of the real object (rebuild + replay), '
                       'canonical-state de-duplication, deviation-level product enumeration'},
]

NOTES = ('Model checking of a sequential, deterministic code base: explicit-state exploration of the real '
         'implementation and bounded-exhaustive enumeration of finite alphabets against independent reference '
         'models (see DESIGN.md). No sampling; VERIF_SEED only permutes the order work is handed to workers.')

CHECKS = {
    'C20': dict(
        engine='explorer',
        technique='explicit-state BFS of BufferedReader operation histories vs reference slice model',
        design_ref='DESIGN.md §7 C20',
        text='Every sequence of read/peek/seek/tell/readall operations up to depth 4 (quick) / 8 (thorough) is '
             'applied to the real BufferedReader for every small geometry (file length 0-9, offset, explicit or '
             'unknown size, buffer sizes 1-5 and 16, cache limits 2-3, data= constructor), states de-duplicated on '
             'exactly the fields the class reads, each step compared with a reference slice model. Exhaustive '
             'within those bounds, which cover every bucket/window alignment and every eviction order.',
        note='Reference model written in /verif; windows longer than the file and seeks past an unknown end are '
             'outside the property and excluded; time.time in the module is replaced by a counter.'),
}

CHECKS['C19'] = dict(
    engine='explorer',
    technique='bounded-exhaustive enumeration of value alphabets vs exact ISO-8601 reference parsers',
    design_ref='DESIGN.md §7 C19',
    text='Every microsecond fraction (thorough: all 10^6; quick: all rounding-boundary residues and all >= .999) '
         'x 9 whole-second parts x 3 input forms is rendered by toIsoDuration and judged by an independent exact '
         'xs:duration parser (lexical form, field ranges, value within 0.5 ms) and by the repository parser; '
         'date-times over 105 UTC offsets x 6 dates x boundary microseconds (+ every microsecond of a second at '
         '2/6 offsets); tick conversions over 20 timescales x 5010 timecodes in both directions against Fraction '
         'arithmetic. The spaces are finite and enumerated completely.',
    note='Exactness oracle = mc/iso8601.py + fractions.Fraction; tolerance 0.5 ms + 1 ns for float noise; '
         'timescales > 10^6 cannot round-trip through timedelta (known finding).')

CHECKS['C01'] = dict(
    engine='crawler',
    technique='clock x option-vector state exploration through HTTP vs independent 23009-1 availability model',
    design_ref='DESIGN.md §7 C01',
    text='For every configuration (7 live templates x option vectors at deviation level 1, level 2 inside the timing '
         'group, fixture and synthetic streams) the finite set of critical instants of one media loop (every segment '
         'boundary/mid-point of every track shifted by every window offset, +-1 us, one interior point per gap) is '
         'visited at several magnitude classes (young stream, 3 loops, 2^32-tick crossing, ~54 years); at each '
         'instant the manifest is read by an independent MPD reader and every segment it makes addressable '
         '(5.3.9.5.3 in exact Fractions) plus every init segment is requested at the same virtual instant.',
    note='Virtual clock seam over datetime.datetime; windows > 64 s fetch the 3 oldest/newest segments per '
         'Representation; each config visits a rotated stride of its critical instants (counts in evidence).')
CHECKS['C02'] = dict(
    engine='crawler',
    technique='same exploration as C01 with a byte-level oracle (independent ISO-BMFF reader) on every fetched segment',
    design_ref='DESIGN.md §7 C02',
    text='Every segment fetched by the C01 exploration (timing-group vectors, synthetic layouts with irregular '
         'durations / non-zero first decode time / no tfdt, alternative timing references) is decoded by an '
         'independent box reader: tfdt == $Time$, sum of sample durations == S@d, sequence_number == $Number$, '
         'nominal-time bound, S entries gapless, and stored position == presentation time modulo the reference '
         'duration (source segment identified by exact payload match).',
    note='Payload identity and nesting are judged by C03; tolerance rules are listed in the evidence assumptions.')
CHECKS['C03'] = dict(
    engine='crawler',
    technique='bounded-exhaustive option product (deviation levels) x every stored segment vs independent box walker',
    design_ref='DESIGN.md §7 C03',
    text='All vectors of deviation level <= 2 (quick) / <= 3 (thorough) over {drm selection x locations, PlayReady '
         'version, PIFF, events x schedules, bugs} plus the drm x piff x events x bugs triples, x {vod, live} x '
         '{number, time} x every segment the manifest enumerates for fixture and synthetic streams (8/16-byte IV, '
         'with/without sub-samples, explicit base_data_offset, no tfdt, styp/sidx). Each response is strictly '
         'nested, payload-identical to a stored segment, trun/saio offsets address payload/senc, counts agree.'
         ' Histories: every ordered pair (a, b) of a request alphabet is run in a process forked for that pair from one that has served nothing; the responses to b are compared with b run alone (mc/history.py).',
    note='Stored view comes from mc/bmff.py scan of the stored bytes, never from the service index.')

CHECKS['C10'] = dict(
    engine='crawler',
    technique='exhaustive DRM-selection product x stored representations; box-level diff vs stored bytes',
    design_ref='DESIGN.md §7 C10',
    text='Every DRM selection expressible as drm=<system>[-<location>...] (9^3-1 system x location-subset '
         'combinations, all, all-<locations>, none, absent) x every stored file (clear and encrypted, fixture and '
         'synthetic) x {live, vod} x {single-period, multi-period init route} (thorough: x PlayReady version x '
         'licence-URL override) is requested and the response diffed box by box against the stored file: only '
         'appended pssh boxes for the systems whose locations include moov (right SystemID, PRO/WRMHEADER naming '
         'the track KID in GUID order, ClearKey v1 KID list) and mehd removal in live mode are permitted.'
         ' Histories: every ordered pair (a, b) of a request alphabet is run in a process forked for that pair from one that has served nothing; the responses to b are compared with b run alone (mc/history.py).',
    note='SystemIDs from the DASH-IF registry; KID from the stored tenc read by mc/bmff.py.')
CHECKS['C13'] = dict(
    engine='crawler',
    technique='bounded-exhaustive Range-header enumeration vs RFC 7233 reference evaluator',
    design_ref='DESIGN.md §7 C13',
    text='8 range-capable URLs (vod/live number and time segments, clear and cenc, multi-period, on-demand files) x '
         'every first-last / first- / -suffix combination over {0,1,2,L-2,L-1,L,L+1,2L,10^12}, a catalogue of '
         'malformed spellings, and every string of <= 3 (quick) / 4-5 (thorough) tokens over a 10-token alphabet; '
         'each response compared with the slice of the un-ranged body at the same instant.',
    note='Reference semantics in mc/range7233.py (single byte-range, clamping, suffix, unsatisfiable).')

CHECKS['C06'] = dict(
    engine='crawler',
    technique='bounded-exhaustive config product with an index cursor over every enumerated segment vs stored scan',
    design_ref='DESIGN.md §7 C06',
    text='Every vod/odvod-capable template x fixture and synthetic streams (irregular and strongly irregular '
         'durations, non-zero first decode time, no tfdt, styp with/without sidx) x option deviation level 1 '
         '(thorough: 2): the static manifest is read independently, every enumerated number / timeline entry / '
         'byte range is fetched, plus last+1; decode times must chain gaplessly from the file first decode time to '
         'the stored total, the declared duration must equal the reference duration to the millisecond, and '
         'on-demand ranges must tile the stored file on box boundaries.',
    note='Numbers enumerated per 5.3.9.5.3 from the document alone; stored view from mc/bmff.py.')

CHECKS['C05'] = dict(
    engine='crawler',
    technique='bounded-exhaustive option/clock product + single-position hostile-string injection vs lxml + own MPD rule set',
    design_ref='DESIGN.md §7 C05',
    text='9 templates x {live, vod, odvod} x {single, multi period} x every option vector of deviation level 1 '
         '(thorough: 2 inside interaction groups) over lexical-trouble alphabets x 3 clocks, MPD patches at three '
         'delays, and 13 hostile strings injected into each of 15 positions (stored titles and licence URLs, '
         'free-text query options, unknown query names, Host) x template x mode. Every 200 body must parse with a '
         'non-recovering parser, keep the element/attribute skeleton of the benign request, and satisfy the '
         'structural rules of mc/mpdrules.py written from ISO/IEC 23009-1.'
         ' Histories: every ordered pair (a, b) of a request alphabet is run in a process forked for that pair from one that has served nothing; the responses to b are compared with b run alone (mc/history.py).',
    note='Rule set is the subset the property names (required attributes, lexical types, non-negativity, id '
         'uniqueness, non-empty AdaptationSets, template identifiers); it is not a full schema validation.')
CHECKS['C08'] = dict(
    engine='explorer',
    technique='bounded-exhaustive product over calendar-critical clocks x start x depth x mup on the real DashTiming',
    design_ref='DESIGN.md §7 C08',
    text='DashTiming is constructed with options from the real option parser for every tuple of: calendar-critical '
         'instants (first/last two minutes of the first and last day of every month of a leap and a non-leap year, '
         'x 4 microsecond phases), the five symbolic starts and explicit starts 0..400 d before now with three '
         'UTC offsets, seven depths, seven update periods and 2-3 reference layouts; the inequalities of the '
         'statement, publishTime monotonicity along the sorted instants and day-constancy of the symbolic starts '
         'are evaluated in exact timedelta arithmetic; a pass through HTTP checks the rendered MPD attributes '
         'against the pure values.',
    note='Option values the endpoint refuses are dropped (listed in evidence); explicit starts are <= now.')

CHECKS['C07'] = dict(
    engine='crawler',
    technique='exhaustive per-option value alphabets (unit round trip) + option-subset enumeration through HTTP re-parsed with the server option parser',
    design_ref='DESIGN.md §7 C07',
    text='Unit: every DashOption found in the registry at run time x every candidate of its type alphabet (all '
         'cgi_choices; boundary integers; ISO instants with UTC offsets and microseconds; URLs over reserved '
         'characters and format fields; lists; every DRM selection x location subset): from_string(text of '
         'to_string(v)) == v. Integration: every 1-subset (thorough: 2-subsets inside four groups) of options at '
         'non-default legal values x templates/modes; the init and media URLs of every media type in the served MPD '
         'are parsed with the server option parser and compared with what the manifest request resolved '
         '(three black-box forwarding rules), and fetched. Which media types an option applies to comes from an own table, '
         'not the registered usage mask; 13 template x mode combinations; two sets of defaults saved with the stream '
         '(scalar and list-valued) overridden by their default/empty/other value; legacy manifest URLs (the redirect '
         'carries the request options); time-of-day error positions judged behaviourally.',
    note='"Accepted" = after the template restrictions/features are applied exactly as calculate_options() does; '
         'time-of-day error positions are translated by design: their meaning is judged by what the media requests do.')

CHECKS['C09'] = dict(
    engine='explorer',
    technique='explicit-state search over clock-advance histories; pairwise document relation + independent XML patch application',
    design_ref='DESIGN.md §7 C09',
    text='From every start instant of 9 configurations (timeline templates, patches on/off, explicit/epoch/today/month '
         'starts incl. day-boundary anchors, fixture and irregular synthetic streams) all clock histories of <= 3 '
         '(quick) / 4 (thorough) advances over a 10-13 element delta alphabet (1 ms ... loop+1 ms, ttl+-1 s) are '
         'explored, de-duplicated by instant; on every edge T1->T2 the two manifests must agree on every shared '
         'segment, windows and publishTime/AST must not move backward, and the patch fetched from the T1 '
         'PatchLocation at T2, applied with mc/xmlpatch.py, must reproduce publishTime, PatchLocation and every '
         'SegmentTimeline of the T2 manifest, with originalPublishTime/mpdId matching.',
    note='Segment and patch clauses are demanded only while availabilityStartTime is unchanged; replacement elements '
         'compared by local name.')

CHECKS['C11'] = dict(
    engine='explorer',
    technique='bounded-exhaustive structured key/seed/URL/version product vs independent hashlib/uuid/own-AES oracle; exhaustive ClearKey request alphabet; DRM selection product through manifests',
    design_ref='DESIGN.md §7 C11',
    text='154 structured 16-byte patterns (all single-bit and single-byte vectors, ramps, fixture KIDs) x 14 seeds of '
         'length 30-40: content key == independent implementation of the published key-seed algorithm, GUID order == '
         'uuid bytes_le; PlayReady Objects for key sets of 1-3 x computed/explicit keys x 6 licence URLs x PlayReady '
         'version x header version parse back (own PRO reader + lxml) to the same KID(s), LA_URL and AES-ECB checksum '
         '(own AES-128); POST /clearkey for every id list of length <= 3 over {known1, known2, unknown, duplicate, '
         'malformed, wrong length}; ContentProtection elements of 8 template/mode pairs x DRM selections match the '
         'selection, default_KID equals the stored tenc KID and embedded pssh/pro equal what the init segment carries '
         '(also for a track with two key ids and an audio track under its own key; PlayReady versions 1.0-4.0 incl. scheme '
         'id). Histories of length <= 3 over eight key-management operations with the licence endpoint asked before and '
         'after each step.',
    note='Oracles: hashlib, uuid, mc/aes128.py (FIPS-197 self-tested), lxml, mc/bmff.py.')

CHECKS['C12'] = dict(
    engine='crawler',
    technique='bounded-exhaustive generation of multi-period definitions created in the real store x mode x clocks; per-Period segment cursor vs stored bytes',
    design_ref='DESIGN.md §7 C12',
    text='Definitions are generated exhaustively from {bbb, tears, synirr} x start offset {0, 1, 1.5 segments, last-1} x '
         'duration {2, 2.5 segments, to the end} x track sets - all single Periods, all ordered pairs and triples of a '
         'reduced set - created through the model layer in a private copy of the store, served in vod and (live) at '
         '3-6 clocks incl. loop wraps; Periods must be contiguous, sum to mediaPresentationDuration / cover the '
         'time-shift window with unique ids; every number a Period admits is fetched: payload == stored segment '
         '(nearest start to the source offset + k), decode times from 0 and gapless, sequence == number; past the '
         'end of the source and foreign Period keys are refused. Definitions include a text track, sources numbered from 7, '
         'DRM with clear-only tracks, and the seven single-period templates on the multi-period route.',
    note='Definitions are inserted with World.add_mps (model layer), the management API is exercised by C17.')

CHECKS['C14'] = dict(
    engine='crawler',
    technique='bounded-exhaustive schedule product (deviation levels) x runs of consecutive segments vs schedule arithmetic, independent emsg reader and SCTE-35 decoder/CRC; exhaustive boundary-value codec round trip',
    design_ref='DESIGN.md §7 C14',
    text='Schedules over {type, start on/around a segment boundary, interval quarter..3 segments and segment+1 tick, '
         'count 0/1/2/3/7, event timescale 1/100/90000/track/coprime, emsg version, inband flag, duration} at deviation '
         'level <= 2 (quick) / 3 (thorough) x {bbb video, irregular synthetic video}: every vod segment in order and '
         'live runs of three loops at 2-4 clock phases. Per segment the emsg ids must equal the events whose exact '
         'rational instant lies in [tfdt, tfdt+duration), resolve to that instant, no id twice in a run; out-of-band '
         'EventStreams list the same schedule; every SCTE-35 payload (emsg or scte35:Binary) decodes with a valid '
         'CRC-32 to event id, PTS (mod 2^33) and break duration; BinarySignal parse(encode(x)) over 43 200 boundary '
         'combinations + cancel/time_signal/null commands + every segmentation type id x 4 field variants + component mode. '
         'Both templates that carry events, base=0, mixed in-band/out-of-band types, 600-event schedules, duration 0 and '
         'program ids; a 5xx inside a run is a violation.',
    note='mc/scte35.py validated against the sample section of the SCTE-35 specification; live runs use $Time$ '
         'addressing so that every listed entry is a distinct stored segment.')

CHECKS['C15'] = dict(
    engine='explorer+tlc',
    technique='explicit-state exploration (depth 1 from a restored snapshot) over route x method x role x harvested credentials; TLA+ model Csrf checked by TLC with all paths and all edges replayed against the implementation',
    design_ref='DESIGN.md §7 C15',
    text='Part 1: 27 mutating request templates x 4 roles x every CSRF token the role harvested by crawling GET routes '
         '(and none, and the once-decoded spelling) x bearer on/off, plus a generic sweep over every rule of the '
         'routing table (discovered at run time) x 5 methods x roles x tokens; after every request a digest of all '
         'tables (Token excluded, User row-level) and of the blob tree is compared with the snapshot - a role may '
         'change only what docs/users.md grants; templates that no role can use fail the run (non-vacuity). '
         'Part 2: models/Csrf.tla (2-3 tokens, 2 cookies, 2 services, 3-6 tamper kinds) is checked by TLC '
         '(invariant: accepted at most once) and its complete state graph replayed: all paths <= 4 (5) and all '
         'edges on CsrfProtection.generate_token/check, all paths <= 3 (4) through PUT /key and PUT /streams/add '
         'with two logged-in clients.',
    note='flask_login is a stand-in (shims/); a correct use after a failed attempt may go either way in the model '
         '(the implementation burns tokens on any attempt) and the replayer follows the branch taken.')

CHECKS['C16'] = dict(
    engine='explorer+tlc',
    technique='bounded-exhaustive hostile-option sweep over route instances; exhaustive single-fault mutation of MP4 seeds; TLA+ model ErrInject checked by TLC with all paths/edges replayed through HTTP',
    design_ref='DESIGN.md §7 C16',
    text='(1) ~190 route instances (every manifest/media/patch/mps/time/html/api route x existing, missing and ill-typed '
         'path parameters x streams with missing pieces: no media, no timing reference, un-indexed file, no encrypted '
         'media; boundary values 0, 99999999, 2^32, 10^22 of the numeric path parameters; segment-info pages around the '
         'ends of the segment table) x every registered option name x 47 hostile values + the spelling variants of every '
         'registered choice (deviation level 1), ~50 option pairs at level 2 (every sub-option with its enabling option), '
         'base requests asserted to answer 200 (non-vacuity), '
         'header and JSON-body type confusion: status < 500, no unhandled exception, answer within 10 s. '
         '(2) every truncation, header bit flip, size-field edit, one-bit type rename and box removal (ancestor sizes '
         'repaired) of 5 small MP4 seeds through Mp4Atom.load (eager, '
         'lazy, encode, toJSON; 5 s budget; seeds must parse - non-vacuity) and through upload/index/info/serve/'
         'inspect. (3) models/ErrInject.tla (2 sessions x 2 media types, 6 code/failure-count configurations) '
         'checked by TLC; all paths <= 3 (5) replayed for $Number$, $Time$ and manifest variants and all edges for '
         '$Number$: every response must be the prescribed one (or lie in the allowed set); the manifest variant also '
         'issues requests without update= (always a miss). (4) errors addressed by a time of day: every second of a 40 s '
         'window x {number, time addressing} x {bbb, tears}: the synthetic error must be produced for exactly the listed '
         'segment whose interval contains that time. (5) the management alphabet of C17 (55 operations), every ordered '
         'pair, issued by the media user: the answer of the request itself must not be a 5xx. (6) a census of every stored '
         'media file of every stream requested the ordinary way; every integer path parameter at 2^15..2^64 with both '
         'neighbours; request headers x options on the manifest routes; two error specifications in sequence in one session; '
         'time-of-day errors later than the manifest; streams whose video can not be indexed and multi-period streams over them.',
    note='Crash signature = exception type + innermost repository frame; requested synthetic errors are excluded '
         'from (1) and judged by (3); /media/inspect POST is an async view this sandbox cannot run (asgiref missing), '
         'its synchronous part is driven inside a request context.')

CHECKS['C04'] = dict(
    engine='explorer',
    technique='deviation-bounded exhaustive generation of every registered box type from an independent box table; '
              'explicit-state search over edit programs; independent walker as size oracle',
    design_ref='DESIGN.md §7 C04',
    text='mc/boxspec.py holds one generator per registered box type (54, taken from fourcc.BOXES at run time; a type '
         'without a generator fails the run), written from ISO/IEC 14496-12/-14/-15/-30, 23001-7, 23009-1 and ETSI TS '
         '102 366: every assignment with <= 2 (quick) / 3 (thorough) deviations from the default field values '
         '(boundary values per width, version- and flag-dependent layouts, list lengths 0-3, UTF-8 strings, 64-bit '
         'and uuid headers; one level less for moov and the large sample entries) plus offset-consistent clear / '
         'cenc (8 and 16 byte IV, senc or PIFF) fragments. Every byte string goes through parse->encode in {eager, '
         'lazy} x {r, rw} before and after the lazy boxes were loaded, eager-vs-lazy toJSON comparison and '
         'toJSON->fromJSON->encode at the original position; so does every MP4 file under tests/fixtures. Edit '
         'programs: all sequences of <= 3 (4) edits over 20 / 17 edits (boundary assignments to mfhd/tfhd/tfdt/'
         'trex/mvhd/mdhd/mehd/tkhd fields, remove sidx/emsg/tfdt/pssh/mehd/udta, insert tfdt v0/v1, append/insert '
         'pssh v0/v1, emsg, free) on clear and cenc fragments and a movie box, eager and lazy; after each step the '
         'output is walked by mc/bmff.py (sizes nest exactly, size/position attributes agree with the bytes, an '
         'assigned value is what a re-parse reads).',
    note='Violations are reported for minimal deviation sets: a superset is reported only for (clause, box) pairs no '
         'failing subset shows. Lazy trees are navigated by attribute access as the library\'s users do. A lone '
         'senc without saiz (tests/fixtures/senc.mp4) is not a well-formed tree and is only required to parse.')

CHECKS['C17'] = dict(
    engine='explorer',
    technique='explicit-state search over management histories with exact store snapshots (SQLite image + blob tree); '
              'invariants evaluated on the real rows after every transition',
    design_ref='DESIGN.md §7 C17',
    text='49 concrete management operations issued by the media user through the real endpoints with fresh CSRF '
         'tokens (create/edit/delete stream incl. duplicate directory and foreign / missing timing reference; stream '
         'defaults; upload clear/audio/cenc files, same name again, the name of another stream\'s file; index; edit '
         'and delete media incl. the timing reference and through the wrong stream; add/edit/delete keys incl. the '
         'key in use, the KID of an existing key in other spellings; create/edit/delete multi-period streams incl. unknown '
         'stream, no periods, existing name). '
         'Quick: every history of length <= 2 and every extension by a 16-operation core alphabet to length 3; '
         'thorough: length <= 3 and core extension to 4; per first operation, states de-duplicated on the full row '
         'content + blob tree. After every transition: referential invariants on raw SQL rows and files on disk, '
         'every Blob row describes the file on disk (size, sha1), name uniqueness (keys by canonical KID), timing reference '
         'resolvable by the service\'s own lookup, deletions compared with the '
         'ownership closure computed from the pre-state; in every new state every listed stream (4 manifests, '
         'init + first media segment of up to 3 representations, byte-exact read-back of uploaded files) and '
         'multi-period stream (vod/live manifest, first init segments) must answer 200 or 4xx. The read-back is compared with '
         'the blob file that is there now.',
    note='Service checks are memoised on everything the service reads for that stream (sound at a fixed clock). A '
         'sampled differential restart (replay of the history from the initial store must reach the same store) '
         'guards the snapshot mechanism. The status of the management request itself is judged by C16.')

CHECKS['C18'] = dict(
    engine='crawler',
    technique='bounded-exhaustive product of validator sessions on the real DashValidator under a deterministic driver; '
              'exhaustive single-response fault injection (every response of a session x corruption catalogue)',
    design_ref='DESIGN.md §7 C18',
    text='mc/validator_driver.py runs the real DashValidator synchronously: in-process HTTP client, inline worker pool, '
         'asyncio.sleep replaced by the virtual clock, the load/validate/sleep/refresh loop of upstream\'s tests with a '
         '12 round bound. Accept side: 9 templates x 3 modes x option vectors at deviation level 1 (quick) / level 2 '
         'inside the timing, DRM and event groups (thorough) over 15 options (depth incl. windows that force refreshes, '
         'mup, start incl. a start 8 s ago and across midnight, timeline, patch, 6 DRM selections, PlayReady version, '
         'abr, codec, base URLs, events, UTC timing, leeway, drift) on bbb, a reduced set on tears and the '
         'multi-period stream, up to 3 clocks: only configurations the server answers with 200 are judged; the '
         'session must terminate, raise nothing and report no error. Detect side: for 7 base sessions (vod/live x '
         'number/timeline x clear/cenc, tears) every response of the session (addressed by URL and occurrence) is '
         'rewritten by every applicable corruption: tfdt + one segment, sequence + 1 (not on the first segment of a '
         'representation), trun data_offset beyond mdat, saio offset + 4, moov / mvex / trex / tkhd removed (sizes '
         'repaired), MPD minBufferTime / profiles / availabilityStartTime / publishTime removed (the last two for '
         'dynamic), availabilityStartTime + 1 h on a refresh, one SegmentTimeline entry dropped: >= 1 error, located '
         'inside the owning AdaptationSet or on the MPD start tag. The accept side also validates every synthetic stream '
         '(irregular durations, fragments numbered from 0 or 7, default durations, track ids 3/5, IV sizes 8/16 in either '
         'order, two key ids); base sessions include on-demand, multi-period, patch and event sessions.',
    note='Synthetic streams are not used here: their codec-level metadata (frame rate, SPS) does not match their '
         'timing, which the validator rightly reports. Request order inside a session is not fixed (the validator keys '
         'elements by id()), so positions are (URL, occurrence) and the located URL is the one actually rewritten. '
         'Accept-side signatures carry the assertion site and the message with numbers removed, not the option vector.')

NOT_BUILT = {}
