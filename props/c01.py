"""C01 - every segment a live manifest advertises is retrievable (and C02's
byte-level oracle rides on the same crawl, see props/c02.py).

Clock x option-vector exploration through HTTP: for every configuration the
finite set of critical instants of one loop of the stored media (segment
boundaries and mid-points of every track shifted by every window offset,
+-1 us, and one interior point per gap) is visited at several magnitude
classes; at every instant the manifest is fetched, read with the independent
MPD reader, and what it makes addressable is requested at the same instant.
"""
from __future__ import annotations

import datetime
from fractions import Fraction

from mc import bmff, core, crawl, mpd, world as W

ID = 'C01'
LEVEL = 'model_checking'
PREFORK_WORLD = {}
RULE = ('state = (stream, template, option vector, magnitude class, critical-instant index); transition = one '
        'request issued at that instant; non-trivial = a (config, instant, representation, segment) that the 200 '
        'manifest made addressable and that was fetched')
ASSUMPTIONS = [
    'availability window per ISO/IEC 23009-1 5.3.9.5.3, closed at its start and open at its end, in exact Fractions',
    'error-injection, corruption and clock-drift options are excluded (they exist to break this property on request)',
    'only manifests that answered 200 are judged',
    'for windows longer than 64 s only the 3 oldest and 3 newest advertised segments of each Representation are '
    'fetched at every instant (interior ones are the edges of a neighbouring instant of the small-depth configs)',
]

AST0 = datetime.datetime(2024, 3, 1, 0, 0, 0, tzinfo=datetime.timezone.utc)
NOON = datetime.datetime(2024, 3, 1, 12, 0, 0, tzinfo=datetime.timezone.utc)

LIVE_TEMPLATES = ('hand_made', 'manifest_a', 'manifest_e', 'manifest_ef', 'manifest_h', 'manifest_i', 'manifest_n')
TIMELINE_CAPABLE = {'hand_made', 'manifest_a', 'manifest_n'}
TIMING_GROUP = ('start', 'depth', 'leeway', 'mup', 'timeline', 'patch')

ALPHABET = {
    'depth': [None, '30', '8', '60', '3600'],
    'leeway': [None, '0', '2', '60'],
    'start': [None, 'today', 'month', 'epoch', 'now', 'explicit', 'explicit+01:00'],
    'mup': [None, '-1', '4', '30'],
    'timeline': [None, '1'],
    'patch': [None, '1'],
    'drm': [None, 'all', 'playready-cenc', 'clearkey-moov'],
    'abr': [None, '0'],
    'acodec': [None, 'ec-3', 'any'],
    'base': [None, '0'],
    'events': [None, 'ping'],
    'time': [None, 'xsd'],
}


def start_value(v):
    if v == 'explicit':
        return crawl.iso(AST0)
    if v == 'explicit+01:00':
        return '2024-03-01T01:00:00+01:00'
    return v


def anchors_for(start, loop, tier):
    """Magnitude classes: list of (label, absolute datetime of phase 0)."""
    loop_s = float(loop)
    out = []
    if start in ('explicit', 'explicit+01:00'):
        out.append(('young', AST0 + datetime.timedelta(seconds=0)))           # elapsed < 1 loop
        out.append(('3loops', AST0 + datetime.timedelta(seconds=3 * loop_s)))
        if tier != 'quick':
            # the loop in which the fastest track (44.1/48 kHz) crosses 2^32 ticks
            n = int((2 ** 32 / 48000) // loop_s)
            out.append(('2^32', AST0 + datetime.timedelta(seconds=n * loop_s)))
            n = int((2 ** 32 / 44100) // loop_s)
            out.append(('2^32b', AST0 + datetime.timedelta(seconds=n * loop_s)))
    else:
        out.append(('noon', NOON))
    return out


def config_list(tier, stream):
    """-> list of (template, opts dict, policy, phase_stride)"""
    out = []
    for tmpl in LIVE_TEMPLATES:
        def ok(opts):
            if opts.get('timeline') == '1' and tmpl not in TIMELINE_CAPABLE:
                return False
            if opts.get('patch') == '1' and tmpl != 'hand_made':
                return False
            if opts.get('events') and tmpl not in ('hand_made', 'manifest_n'):
                return False
            if opts.get('drm') and tmpl in ('manifest_a',):
                return False
            return True
        base = {'start': 'explicit'}
        seen = set()

        def add(opts, stride):
            o = dict(base)
            o.update(opts)
            key = tuple(sorted(o.items()))
            if key in seen or not ok(o):
                return
            seen.add(key)
            out.append((tmpl, o, stride))
        add({}, 1)
        # level 1
        for name, vals in ALPHABET.items():
            for v in vals:
                if v is None:
                    continue
                timing = name in TIMING_GROUP
                add({name: v}, 1 if timing else 8)
        # level 2 inside the timing group
        if tier != 'quick' or tmpl in ('hand_made',):
            names = list(TIMING_GROUP)
            for i, a in enumerate(names):
                for b in names[i + 1:]:
                    for va in ALPHABET[a]:
                        for vb in ALPHABET[b]:
                            if va is None or vb is None:
                                continue
                            if tier == 'quick' and not ({a, b} <= {'depth', 'leeway', 'timeline', 'start'}):
                                continue
                            add({a: va, b: vb}, 2 if tier != 'quick' else 4)
    return out


STREAM_FILES = {
    'bbb': {'ref': 'bbb_v6', 'names': ['bbb_v6', 'bbb_a1', 'bbb_a2', 'bbb_t1']},
    'tears': {'ref': 'tears_v1', 'names': ['tears_v1', 'tears_a1']},
    'synirr': {'ref': 'synirr_v1', 'names': ['synirr_v1', 'synirr_a1']},
    'synoff': {'ref': 'synoff_v1', 'names': ['synoff_v1', 'synoff_a1']},
    'synnot': {'ref': 'synnot_v1', 'names': ['synnot_v1', 'synnot_a1']},
    'synenc': {'ref': 'synenc_v1', 'names': ['synenc_v1', 'synenc_a1']},
    'synwild': {'ref': 'synwild_v1', 'names': ['synwild_v1', 'synwild_a1']},
    'synnum': {'ref': 'synnum_v1', 'names': ['synnum_v1', 'synnum_a1']},
    'syndef': {'ref': 'syndef_v1', 'names': ['syndef_v1', 'syndef_a1']},
    'synmk': {'ref': 'synmk_v1', 'names': ['synmk_v1', 'synmk_a1']},
    'syntrk': {'ref': 'syntrk_v1', 'names': ['syntrk_v1', 'syntrk_a1']},
    'synzero': {'ref': 'synzero_v1', 'names': ['synzero_v1', 'synzero_a1']},
}


def plan(tier):
    items = []
    # synthetic layouts (irregular durations, non-zero first decode time, no tfdt): tiny loops, full K
    for stream in ('synirr', 'synoff', 'synnot', 'synwild', 'synnum', 'syndef', 'syntrk', 'synzero'):
        for tmpl in ('hand_made', 'manifest_e', 'manifest_n', 'manifest_a'):
            for opts in ({'start': 'explicit', 'depth': '30'}, {'start': 'explicit', 'depth': '8', 'leeway': '0'},
                         {'start': 'explicit', 'depth': '30', 'timeline': '1'},
                         {'start': 'epoch', 'depth': '30'}, {'start': 'today'}):
                if opts.get('timeline') and tmpl not in TIMELINE_CAPABLE:
                    continue
                items.append({'stream': stream, 'template': tmpl, 'opts': opts, 'tier': tier,
                              'stride': 2 if tier != 'quick' else 16})
    for stream in ('bbb', 'tears'):
        cfgs = config_list(tier, stream)
        for tmpl, opts, stride in cfgs:
            if stream == 'tears' and (len(opts) > 2 or tmpl not in ('hand_made', 'manifest_e', 'manifest_n')):
                continue
            main = tmpl in ('hand_made', 'manifest_n', 'manifest_e')
            if tier == 'quick':
                stride *= 24 if main else 72
            else:
                stride *= 5 if main else 15
            items.append({'stream': stream, 'template': tmpl, 'opts': opts, 'stride': stride, 'tier': tier})
    return items


def _depth_of(opts):
    return int(opts.get('depth') or 1800)


def _leeway_of(opts):
    return int(opts.get('leeway') or 16)


def instants_for(item):
    stored = crawl.Stored.fixture(item['stream'])
    sf = STREAM_FILES[item['stream']]
    opts = item['opts']
    depth = _depth_of(opts)
    leeway = _leeway_of(opts)
    maxseg = 10
    Wo = [0, depth, depth + leeway, depth + 2 * maxseg]
    mup = opts.get('mup')
    mup = int(mup) if mup and int(mup) > 0 else None
    K, loop = crawl.critical_instants(stored, item.get('ref') or sf['ref'], sf['names'], Wo, mup,
                                      full=item['tier'] != 'quick')
    stride = item['stride']
    # a stride > 1 takes every stride-th critical instant, rotated by a value derived from the config so that
    # the union over configs still visits every instant
    rot = core.digest(sorted(opts.items()))[0] % stride
    Ks = [k for i, k in enumerate(K) if i % stride == rot]
    return Ks, loop, len(K)


def rel_leeway(leeway, segdur):
    if leeway < segdur / 2:
        return 'leeway<seg/2'
    if leeway < segdur:
        return 'seg/2<=leeway<seg'
    if leeway < 2 * segdur:
        return 'seg<=leeway<2seg'
    return 'leeway>=2seg'


def execute(item, oracle=None, manifest_hook=None):
    """Runs on a worker. oracle(acc, ctxinfo, rep, seg, label, resp) for extra byte-level checks."""
    w = W.World.shared()
    w.begin_item()
    acc = core.Acc()
    opts = dict(item['opts'])
    q = dict(opts)
    if 'start' in q:
        q['start'] = start_value(q['start'])
    url = crawl.manifest_url('live', item['stream'], item['template'], q)
    Ks, loop, nK = instants_for(item)
    depth = _depth_of(opts)
    policy = 'all' if depth <= 64 else 'edges'
    acc.notes.setdefault('K_sizes', {})[f"{item['stream']}/{item['template']}/{sorted(opts.items())}"] = nK
    for label, anchor in anchors_for(opts.get('start'), loop, item['tier']):
        for ki, k in enumerate(Ks):
            now = anchor + datetime.timedelta(microseconds=int(k * 10 ** 6))
            W.set_now(now)
            crawl_one(w, acc, item, url, now, policy, label, oracle, manifest_hook)
            acc.state((item['stream'], item['template'], tuple(sorted(opts.items())), label, str(k)))
    return acc


def crawl_one(w, acc, item, url, now, policy, label, oracle, manifest_hook=None):
    opts = item['opts']
    r = w.get(url)
    acc.count('evaluations')
    acc.count('transitions')
    acc.count('manifests')
    rec_base = {'stream': item['stream'], 'template': item['template'], 'opts': opts, 'now': crawl.iso(now),
                'url': url, 'ref': item.get('ref')}
    if item.get('sdef_record'):
        rec_base['sdef'] = item['sdef_record']
    if r.status != 200:
        acc.outcome(('manifest', r.status))
        acc.count('manifest_not_200')
        return
    try:
        doc = mpd.Mpd(r.body, 'http://localhost' + url.split('?')[0])
    except Exception as e:
        acc.outcome(('manifest-unreadable', type(e).__name__))
        acc.count('manifest_unreadable')
        return
    acc.count('traces')
    if manifest_hook is not None:
        manifest_hook(acc, rec_base, doc)
    for rep in doc.all_reps():
        kind = rep.content_type
        iu = rep.init_url()
        if iu:
            ir = w.get(mpd.split_url(iu))
            acc.count('evaluations')
            acc.count('transitions')
            acc.nontriv(('init', item['template'], tuple(sorted(opts.items())), rep.id))
            if ir.status != 200:
                sig = f'C01|init|{kind}|status={ir.status}'
                acc.violation(sig, f'init segment {iu} of a 200 manifest answered {ir.status} at {crawl.iso(now)}',
                              dict(rec_base, rep=rep.id, fetch=mpd.split_url(iu)))
        try:
            segs = doc.live_segments(rep, now)
        except mpd.MpdError as e:
            acc.outcome(('unreadable-rep', str(e)[:40]))
            continue
        ts = rep.timescale
        for seg, pos in crawl.select(segs, policy, edge=3):
            path = mpd.split_url(seg['url'])
            sr = w.get(path)
            acc.count('evaluations')
            acc.count('transitions')
            acc.nontriv((item['stream'], item['template'], tuple(sorted(opts.items())), crawl.iso(now), rep.id, seg['n'], seg['t']))
            acc.outcome((seg['kind'], pos, sr.status))
            if sr.status != 200:
                segdur = Fraction(seg['d'], ts)
                mode = seg['kind']
                sig = (f"C01|{mode}|{pos}|{kind}|{rel_leeway(_leeway_of(opts), segdur)}|status={sr.status}")
                acc.violation(
                    sig,
                    f"{item['template']} {opts} at {crawl.iso(now)} ({label}): {rep.id} advertises "
                    f"{'$Time$=%d' % seg['t'] if mode == 'time' else '$Number$=%d' % seg['n']} "
                    f"(d={seg['d']}/{ts}, position {seg['idx']+1}/{seg['count']}) but {path} answered {sr.status}",
                    dict(rec_base, rep=rep.id, fetch=path, seg={k: seg[k] for k in ('kind', 't', 'd', 'n', 'idx', 'count')},
                         pos=pos))
            elif oracle is not None:
                oracle(acc, rec_base, doc, rep, seg, pos, sr)


def run(ctx):
    items = plan(ctx.tier)
    res = ctx.pmap(execute, items)
    ctx.merge_all(res)
    ks = ctx.acc.notes.get('K_sizes', {})
    ctx.extra.update(configs=len(items), alphabet=ALPHABET, templates=list(LIVE_TEMPLATES),
                     critical_instants_per_config={'min': min(ks.values()) if ks else 0,
                                                   'max': max(ks.values()) if ks else 0},
                     levels_completed='level 1 over all coordinates; level 2 inside the timing group '
                                      + ('(hand_made, depth/leeway/timeline/start) ' if ctx.quick else '(all templates) ')
                                      + 'at a per-config stride of the critical instants')


def replay(record, oracle=None):
    w = W.World.shared()
    w.begin_item()
    acc = core.Acc()
    item = {'stream': record['stream'], 'template': record['template'], 'opts': record['opts'], 'tier': 'quick'}
    now = W.set_now(record['now'])
    depth = _depth_of(record['opts'])
    crawl_one(w, acc, item, record['url'], now, 'all' if depth <= 64 else 'edges', 'replay', oracle)
    return [(s, v[0]['what']) for s, v in acc.viol.items()]
