"""C16 part 3 - injected errors fire exactly as asked: TLA+ model `ErrInject` (one TLC run per
(code class, failure count)), all paths up to a bound and all edges replayed through HTTP.

Variants replayed: segment requests by $Number$ (video verr / audio aerr), by $Time$, and the
manifest variant (merr=<code>=<n> against update=<m> requests).
"""
from __future__ import annotations

import datetime

from mc import core, tlc, world as W

NOW = datetime.datetime(2024, 3, 1, 12, 0, 3, 500000, tzinfo=datetime.timezone.utc)
CONFIGS = [(True, -1), (True, 0), (True, 1), (True, 2), (False, -1), (False, 1)]
CODES = {True: 503, False: 404}


def constants(is5xx, failures, tier):
    return {'Sessions': '{"a","b"}', 'Types': '{"video","audio"}', 'Is5xx': 'TRUE' if is5xx else 'FALSE',
            'HasFailures': 'TRUE' if failures >= 0 else 'FALSE', 'Failures': max(failures, 0),
            'MaxSteps': 4 if tier == 'quick' else 6}


_graphs = {}


def graph(is5xx, failures, tier):
    key = (is5xx, failures, tier)
    if key not in _graphs:
        _graphs[key] = tlc.Graph(tlc.run_tlc('ErrInject', constants(is5xx, failures, tier), ['NeverMoreThanConfigured']))
    return _graphs[key]


class Impl:
    def __init__(self, variant, is5xx, failures):
        self.w = W.World.shared(extras=True)
        self.variant = variant
        self.code = CODES[is5xx]
        self.failures = failures

    def reset(self):
        self.clients = {'a': self.w.app.test_client(), 'b': self.w.app.test_client()}
        W.set_now(NOW)

    def url(self, typ, hit):
        f = '' if self.failures < 0 else f'&failures={self.failures}'
        v = self.variant
        if v == 'manifest':
            # the manifest counter is keyed by usage and code: type "video" = requests that carry update=<n>
            # (n addressed -> hit, another n -> miss); type "audio" = the same manifest requested without update=,
            # which addresses no update count and is therefore always a miss
            if typ == 'audio':
                return f'/dash/live/bbb/hand_made.mpd?merr={self.code}=3{f}'
            upd = 3 if hit else 4
            return f'/dash/live/bbb/hand_made.mpd?merr={self.code}=3&update={upd}{f}'
        name, ext, opt = {'video': ('bbb_v7', 'm4v', 'verr'), 'audio': ('bbb_a1', 'm4a', 'aerr')}[typ]
        n = 5 if hit else 6
        if v == 'number':
            return f'/dash/vod/bbb/{name}/{n}.{ext}?{opt}={self.code}={5}{f}'
        ts = {'video': 960, 'audio': 176128}[typ]
        return f'/dash/vod/bbb/{name}/time/{(n - 1) * ts}.{ext}?{opt}={self.code}={5}{f}'

    def do(self, act):
        kind, s, t = act[0], act[1], act[2]
        r = self.w.get(self.url(t, kind == 'hit'), client=self.clients[s])
        if r.exc is not None:
            return 'crash:' + W.crash_signature(r.exc), r
        if r.status == self.code and r.body.startswith(b'Synthetic'):
            return 'code', r
        if r.status == 200:
            return 'ok', r
        return f'status-{r.status}', r


def replay_path(g, im, path, acc, tag, check_from=0):
    im.reset()
    src = g.init
    for i, node in enumerate(path):
        act = g.last[node]
        want = act[3]
        got, r = im.do(act)
        acc.count('transitions')
        if i >= check_from:
            acc.count('evaluations')
        if got != want:
            sib = [n for n in g.succ[src] if g.last[n][:3] == act[:3] and g.last[n][3] == got]
            if sib:
                acc.outcome(('branch', tag, got))
                return False
            if i >= check_from:
                cls = ('crash' if got.startswith('crash') else
                       ('error-produced-but-not-allowed' if got == 'code' else
                        ('served-but-error-required' if got == 'ok' else got)))
                site = got.split(':', 1)[1] if got.startswith('crash') else ''
                acc.violation(f'C16|inject|{im.variant}|{act[0]}|{cls}' + (f'|{site}' if site else ''),
                              f'{tag}: after {[g.last[n] for n in path[:i]]}, {act[0]} by session {act[1]} on {act[2]}: '
                              f'got {got}, the model prescribes {want} ({im.url(act[2], act[0] == "hit")})',
                              {'kind': 'inject', 'variant': im.variant, 'is5xx': im.code >= 500, 'failures': im.failures,
                               'history': [list(g.last[n]) for n in path[:i + 1]]})
            return False
        src = node
    return True


def item(arg):
    mode, variant, is5xx, failures, tier, lo, hi, plen = arg
    g = graph(is5xx, failures, tier)
    im = Impl(variant, is5xx, failures)
    acc = core.Acc()
    tag = f'{variant}|{"5xx" if is5xx else "4xx"}|failures={"absent" if failures < 0 else failures}'
    if mode == 'paths':
        paths = g.all_paths(plen)
        if variant == 'manifest':
            # a request without update= can not be a hit; both types share one counter per session, which the model
            # keeps per type: only paths whose hits are all of one type are meaningful - here: video hits, audio misses
            paths = [p for p in paths if all(g.last[n][2] == 'video' or g.last[n][0] == 'miss' for n in p)]
        for p in paths[lo:hi]:
            ok = replay_path(g, im, p, acc, tag)
            acc.count('traces')
            acc.state(('path', tag, tuple(g.last[n] for n in p)))
            if ok:
                acc.nontriv(('path', tag, tuple(g.last[n] for n in p)))
    else:
        sp = g.shortest_paths()
        nodes = sorted(sp, key=lambda n: (len(sp[n]), [g.last[x] for x in sp[n]]))
        for n in nodes[lo:hi]:
            for s in g.succ[n]:
                path = sp[n] + [s]
                ok = replay_path(g, im, path, acc, tag, check_from=len(path) - 1)
                acc.count('traces')
                acc.state(('edge', tag, n, s))
                if ok:
                    acc.nontriv(('edge', tag, n, s))
    return acc


def phases_item(arg):
    """Two error specifications one after the other in one client session (a player that retries segment 5 until it is
    served and then moves on to segment 7): each is produced the configured number of times. Explicit enumeration of
    the request sequences: F+1 hits of the first, F+1 hits of the second, with up to two other requests (a miss of the
    same session, a hit by another session) at every position."""
    variant, typ, failures, tier = arg
    import itertools
    w = W.World.shared(extras=True)
    acc = core.Acc()
    code = CODES[True]
    name, ext, opt = {'video': ('bbb_v7', 'm4v', 'verr'), 'audio': ('bbb_a1', 'm4a', 'aerr')}[typ]
    ts = {'video': 960, 'audio': 176128}[typ]

    def url(seg, spec):
        q = f'?{opt}={code}={spec}&failures={failures}'
        if variant == 'number':
            return f'/dash/vod/bbb/{name}/{seg}.{ext}{q}'
        return f'/dash/vod/bbb/{name}/time/{(seg - 1) * ts}.{ext}{q}'
    core_seq = [('hit', 'a', 5, 5)] * (failures + 1) + [('hit', 'a', 7, 7)] * (failures + 1)
    extras = [('miss', 'a', 6, 5), ('hit', 'b', 5, 5)]
    n = len(core_seq)
    plans = [()]
    for k in (1, 2):
        for pos in itertools.combinations_with_replacement(range(n + 1), k):
            for ex in itertools.product(range(len(extras)), repeat=k):
                plans.append(tuple(zip(pos, ex)))
    if tier == 'quick':
        plans = [p for p in plans if len(p) <= 1] + [p for p in plans if len(p) == 2][::5]
    for plan_ in plans:
        seq = list(core_seq)
        for pos, ex in sorted(plan_, reverse=True):
            seq.insert(pos, extras[ex])
        clients = {'a': w.app.test_client(), 'b': w.app.test_client()}
        W.set_now(NOW)
        counts = {}
        hist = []
        for kind, sess, seg, spec in seq:
            r = w.get(url(seg, spec), client=clients[sess])
            acc.count('transitions')
            acc.count('evaluations')
            got = 'code' if (r.status == code and r.body.startswith(b'Synthetic')) else ('ok' if r.status == 200 else f'status-{r.status}')
            if kind == 'miss':
                want = 'ok'
            else:
                c = counts.get((sess, spec), 0)
                want = 'code' if c < failures else 'ok'
                counts[(sess, spec)] = c + 1
            hist.append((kind, sess, seg, got))
            if got != want:
                cls = 'error-produced-but-not-allowed' if got == 'code' else ('served-but-error-required' if got == 'ok' else got)
                which = 'first' if spec == 5 else 'second'
                acc.violation(f'C16|inject|{variant}|phases|{which}-specification|{cls}',
                              f'{variant}/{typ}/failures={failures}: after {hist[:-1]}, {kind} by session {sess} on segment '
                              f'{seg} ({url(seg, spec)}): got {got}, the specification prescribes {want}',
                              {'kind': 'inject-phases', 'arg': [variant, typ, failures, 'thorough']})
                break
        acc.state(('phases', variant, typ, failures, plan_))
        acc.nontriv(('phases', variant, typ, failures, plan_))
        acc.count('traces')
    return acc


def dispatch(kind, arg):
    if kind == 'inject-phases':
        return phases_item(arg)
    return item(arg)


def plan(ctx):
    tier = ctx.tier
    items = []
    summary = {}
    plen = 3 if tier == 'quick' else 5
    for is5xx, failures in CONFIGS:
        g = graph(is5xx, failures, tier)        # TLC runs in the parent; workers inherit the graphs
        npaths = len(g.all_paths(plen))
        summary[f'{"5xx" if is5xx else "4xx"}/failures={failures}'] = {'states': len(g.last), 'edges': g.n_edges,
                                                                      'paths': npaths, 'tlc': g.stats}
        for variant in ('number', 'time', 'manifest'):
            for lo in range(0, npaths, 150):
                items.append(('inject', ('paths', variant, is5xx, failures, tier, lo, lo + 150, plen)))
        for lo in range(0, len(g.last), 120):
            items.append(('inject', ('edges', 'number', is5xx, failures, tier, lo, lo + 120, plen)))
    for variant in ('number', 'time'):
        for typ in ('video', 'audio'):
            for failures in ((1, 2) if tier == 'quick' else (1, 2, 3)):
                items.append(('inject-phases', (variant, typ, failures, tier)))
    extra = {'inject_tlc': {'model': 'models/ErrInject.tla', 'runs': summary, 'invariant': 'NeverMoreThanConfigured'},
             'inject_levels': f'ErrInject model: {len(CONFIGS)} TLC runs; all paths <= {plen} replayed for number, time and '
                              f'manifest variants, all edges for the number variant'}
    return items, extra


def replay(record):
    if record.get('kind') == 'inject-phases':
        a = phases_item(tuple(record['arg']))
        return [(s_, v[0]['what']) for s_, v in a.viol.items()]
    g = None
    im = Impl(record['variant'], record['is5xx'], record['failures'])
    im.reset()
    hist = [tuple(h) for h in record['history']]
    out = []
    tag = f'{record["variant"]}|{"5xx" if record["is5xx"] else "4xx"}|failures={"absent" if record["failures"] < 0 else record["failures"]}'
    for i, act in enumerate(hist):
        got, r = im.do(act)
        if i == len(hist) - 1 and got != act[3]:
            cls = ('crash' if got.startswith('crash') else
                   ('error-produced-but-not-allowed' if got == 'code' else
                    ('served-but-error-required' if got == 'ok' else got)))
            site = got.split(':', 1)[1] if got.startswith('crash') else ''
            out.append((f'C16|inject|{record["variant"]}|{act[0]}|{cls}' + (f'|{site}' if site else ''), f'{hist}: got {got}'))
    return out
