"""placeholder"""


def plan(ctx):
    return [], {}


def dispatch(kind, arg):
    raise NotImplementedError


def replay(record):
    return []
