"""C15 part 2 - CSRF token life-cycle: TLA+ model `Csrf` checked by TLC, its whole
labelled state graph replayed against the implementation.

Two conformance strengths, both exhaustive within the model bounds:
  (a) every path from the initial state up to a length bound,
  (b) every edge of the whole graph (each state entered by its BFS-shortest path,
      then every outgoing edge executed and compared).
Two implementation seams:
  seam     - CsrfProtection.generate_token / check inside request contexts carrying the
             model's cookie,
  endpoint - real CSRF-protected endpoints (PUT /key, PUT /streams/add) as two separate
             logged-in media clients (= two cookies).
"""
from __future__ import annotations

import datetime
import json
from urllib.parse import unquote

from mc import core, mgmt, tlc, world as W

NOW = datetime.datetime(2024, 3, 1, 12, 0, 0, tzinfo=datetime.timezone.utc)
KINDS = ('salt', 'sig', 'trunc', 'splice', 'decode2', 'empty', 'pad-suffix', 'nonalpha', 'lowbits', 'quote')
SERVICES = {'s1': 'keys', 's2': 'streams'}


def constants(tier):
    if tier == 'quick':
        return {'Cookies': '{"c1","c2"}', 'Services': '{"s1","s2"}', 'Kinds': '{"salt","sig","trunc","lowbits","pad-suffix"}',
                'MaxTokens': 2, 'MaxSteps': 4}
    return {'Cookies': '{"c1","c2"}', 'Services': '{"s1","s2"}',
            'Kinds': '{"salt","sig","trunc","splice","decode2","empty","pad-suffix","nonalpha","lowbits","quote"}', 'MaxTokens': 3,
            'MaxSteps': 5}


_graph = {}


def graph(tier):
    if tier not in _graph:
        _graph[tier] = tlc.Graph(tlc.run_tlc('Csrf', constants(tier), ['AcceptedAtMostOnce', 'AcceptedWereIssued']))
    return _graph[tier]


def respell(token: str, k: int) -> str:
    """The same token in another spelling (it names the same token: the check percent-decodes what it is given)."""
    k %= 3
    if k == 0:
        return token
    if k == 1:
        return unquote(token)
    raw = unquote(token)
    return '%%%02X' % ord(raw[0]) + token[len(raw[0]) if token[0] == raw[0] else 3:]


def tamper(token: str, kind: str, other: str | None):
    raw = unquote(token)
    if kind == 'salt':
        ch = 'A' if raw[0] != 'A' else 'B'
        return ch + raw[1:]
    if kind == 'sig':
        i = len(raw) - 6
        ch = 'A' if raw[i] != 'A' else 'B'
        return raw[:i] + ch + raw[i + 1:]
    if kind == 'trunc':
        return raw[:-3]
    if kind == 'splice':
        o = unquote(other) if other else raw[::-1]
        return raw[:8] + o[8:]
    if kind == 'decode2':
        return unquote(raw) + ' '
    if kind == 'empty':
        return ''
    # spellings that a lenient base64 decoder maps to the signature of the original: the token is text, a different
    # text is a different token
    if kind == 'pad-suffix':
        i = raw.rindex('=')
        return raw[:i + 1] + 'A' + raw[i + 1:]
    if kind == 'nonalpha':
        i = len(raw) - 10
        return raw[:i] + '!' + raw[i:]
    if kind == 'lowbits':
        import string
        alpha = string.ascii_uppercase + string.ascii_lowercase + string.digits + '+/'
        i = raw.rindex('=') - 1
        return raw[:i] + alpha[alpha.index(raw[i]) ^ 1] + raw[i + 1:]
    if kind == 'quote':
        return raw.replace("'", '"')
    raise ValueError(kind)


class SeamImpl:
    """CsrfProtection driven directly inside request contexts."""

    def __init__(self):
        self.w = mgmt.build_world()
        from dashlive.server.requesthandler.csrf import CsrfProtection
        from dashlive.server.requesthandler.exceptions import CsrfFailureException
        self.P = CsrfProtection
        self.Fail = CsrfFailureException
        self.cookies = {'c1': 'cookie-one-0123456789abcdef', 'c2': 'cookie-two-fedcba9876543210'}

    def reset(self):
        self.w.reset()
        self.tokens = {}
        self.uses = {}

    def issue(self, tid, c, s):
        with self.w.app.test_request_context('/x', headers={'Cookie': f'csrf={self.cookies[c]}'}):
            self.tokens[tid] = self.P.generate_token(SERVICES[s], self.cookies[c])

    def _check(self, token, c, s):
        with self.w.app.test_request_context('/x', headers={'Cookie': f'csrf={self.cookies[c]}'}):
            try:
                self.P.check(SERVICES[s], token)
                return 'ok'
            except (self.Fail, ValueError):
                return 'no'

    def use(self, tid, c, s):
        k = self.uses.get(tid, 0)
        self.uses[tid] = k + 1
        return self._check(respell(self.tokens[tid], k), c, s)

    def tamper(self, tid, kind, issued_by):
        c, s = issued_by
        other = next((t for i, t in self.tokens.items() if i != tid), None)
        return self._check(tamper(self.tokens[tid], kind, other), c, s)


class EndpointImpl:
    """Real endpoints as two logged-in media clients."""

    def __init__(self):
        self.w = mgmt.build_world()
        self.n = 0

    def reset(self):
        self.w.reset()
        W.set_now(NOW)
        self.clients = {}
        for c in ('c1', 'c2'):
            rc = mgmt.RoleClient(self.w, 'media')
            rc.login()
            self.clients[c] = rc
        self.tokens = {}
        self.uses = {}

    def issue(self, tid, c, s):
        r = self.w.request('GET', '/streams?ajax=1', client=self.clients[c].client)
        js = r.json()['csrf_tokens']
        self.tokens[tid] = js['kids'] if s == 's1' else js['streams']

    def _send(self, token, c, s):
        rc = self.clients[c]
        self.n += 1
        if s == 's1':
            kid = '%032x' % (0xABC000 + self.n)
            r = self.w.request('PUT', f'/key?kid={kid}&csrf_token={token}&ajax=1', client=rc.client)
            try:
                js = r.json()
            except Exception:
                return 'no'
            return 'ok' if r.status == 200 and js.get('kid') == kid else 'no'
        r = self.w.request('PUT', '/streams/add?ajax=1', client=rc.client,
                           json_body={'title': 't', 'directory': f'dir{self.n}', 'csrf_token': token})
        try:
            js = r.json()
        except Exception:
            return 'no'
        return 'ok' if r.status == 200 and 'id' in js else 'no'

    def use(self, tid, c, s):
        from urllib.parse import quote
        k = self.uses.get(tid, 0)
        self.uses[tid] = k + 1
        tok = respell(self.tokens[tid], k)
        if s == 's1' and k % 3 == 1:
            tok = quote(tok, safe='')      # the decoded spelling travels in a query string: escaped once for transport
        return self._send(tok, c, s)

    def tamper(self, tid, kind, issued_by):
        c, s = issued_by
        other = next((t for i, t in self.tokens.items() if i != tid), None)
        from urllib.parse import quote
        return self._send(quote(tamper(self.tokens[tid], kind, other), safe=''), c, s)


_impl = {}


def impl(kind):
    if kind not in _impl:
        _impl[kind] = SeamImpl() if kind == 'seam' else EndpointImpl()
    return _impl[kind]


def replay_path(g, im, path, acc, seam, check_from=0):
    """Replay the node path on a fresh implementation. Returns False if the implementation left the path
    (took the sibling branch of an 'either' step)."""
    im.reset()
    issued_by = {}
    src = g.init
    for i, node in enumerate(path):
        act = g.last[node]
        if act[0] == 'issue':
            _, tid, c, s = act
            im.issue(tid, c, s)
            issued_by[tid] = (c, s)
            got = None
        elif act[0] == 'use':
            _, tid, c, s, want = act
            got = im.use(tid, c, s)
        else:
            _, tid, kind, want = act
            got = im.tamper(tid, kind, issued_by[tid])
        acc.count('transitions')
        if got is not None and i >= check_from:
            acc.count('evaluations')
            if got != want:
                # is there a sibling edge with the same action and the observed outcome?
                sib = [n for n in g.succ[src] if g.last[n][:-1] == act[:-1] and g.last[n][-1] == got]
                if sib:
                    acc.outcome(('branch', seam, act[0], got))
                    return False
                cls = 'accepted-but-model-forbids' if got == 'ok' else 'refused-but-model-requires'
                what = {'issue': '', 'use': f'use of token {act[1]} with cookie {act[2]} for service {act[3]}',
                        'tamper': f'token {act[1]} modified ({act[2]})'}[act[0]]
                acc.violation(f'C15|csrf|{seam}|{act[0]}|{cls}',
                              f'history {[g.last[n] for n in path[:i]]} then {what}: implementation says {got}, '
                              f'the model prescribes {want}',
                              {'kind': 'csrf', 'seam': seam, 'history': [list(g.last[n]) for n in path[:i + 1]]})
                return False
        elif got is not None and got != want:
            sib = [n for n in g.succ[src] if g.last[n][:-1] == act[:-1] and g.last[n][-1] == got]
            if sib:
                return False
        src = node
    return True


def paths_item(arg):
    tier, seam, lo, hi, max_len = arg
    g = graph(tier)
    im = impl(seam)
    acc = core.Acc()
    paths = g.all_paths(max_len)
    for p in paths[lo:hi]:
        ok = replay_path(g, im, p, acc, seam)
        acc.count('traces')
        acc.state(('path', seam, tuple(g.last[n] for n in p)))
        if ok:
            acc.nontriv(('path', seam, tuple(g.last[n] for n in p)))
    return acc


def edges_item(arg):
    tier, seam, lo, hi = arg
    g = graph(tier)
    im = impl(seam)
    acc = core.Acc()
    sp = g.shortest_paths()
    nodes = sorted(sp, key=lambda n: (len(sp[n]), [g.last[x] for x in sp[n]]))
    for n in nodes[lo:hi]:
        for s in g.succ[n]:
            path = sp[n] + [s]
            ok = replay_path(g, im, path, acc, seam, check_from=len(path) - 1)
            acc.count('traces')
            acc.state(('edge', seam, n, s))
            if ok:
                acc.nontriv(('edge', seam, n, s))
    return acc


def dispatch(kind, arg):
    if kind == 'csrf-paths':
        return paths_item(arg)
    if kind == 'csrf-edges':
        return edges_item(arg)
    raise ValueError(kind)


def plan(ctx):
    tier = ctx.tier
    g = _graph_summary(tier)      # TLC runs once, in the parent; workers inherit the parsed graph
    items = []
    plen = 4 if tier == 'quick' else 5
    npaths = g['paths'][plen]
    for lo in range(0, npaths, 400):
        items.append(('csrf-paths', (tier, 'seam', lo, lo + 400, plen)))
    for lo in range(0, g['states'], 150):
        items.append(('csrf-edges', (tier, 'seam', lo, lo + 150)))
    elen = 3 if tier == 'quick' else 4
    for lo in range(0, g['paths'][elen], 60):
        items.append(('csrf-paths', (tier, 'endpoint', lo, lo + 60, elen)))
    extra = {'tlc': {'model': 'models/Csrf.tla', 'constants': constants(tier), 'states': g['states'], 'edges': g['edges'],
                     'tlc_stats': g['stats'], 'invariants': ['AcceptedAtMostOnce', 'AcceptedWereIssued']},
             'csrf_paths_replayed': {'seam': {'max_len': plen, 'paths': npaths},
                                     'endpoint': {'max_len': elen, 'paths': g['paths'][elen]}},
             'csrf_levels': f'Csrf model ({g["states"]} TLC states, {g["edges"]} edges): all paths <= {plen} and all edges '
                            f'replayed at the seam, all paths <= {elen} through real endpoints'}
    return items, extra


def _graph_summary(tier):
    g = graph(tier)
    return {'states': len(g.last), 'edges': g.n_edges, 'stats': g.stats,
            'paths': {n: len(g.all_paths(n)) for n in (3, 4, 5)}}


def replay(record):
    acc = core.Acc()
    im = impl(record['seam'])
    im.reset()
    issued_by = {}
    out = []
    hist = [tuple(h) for h in record['history']]
    for i, act in enumerate(hist):
        if act[0] == 'issue':
            im.issue(act[1], act[2], act[3])
            issued_by[act[1]] = (act[2], act[3])
        elif act[0] == 'use':
            got = im.use(act[1], act[2], act[3])
            if i == len(hist) - 1 and got != act[4]:
                cls = 'accepted-but-model-forbids' if got == 'ok' else 'refused-but-model-requires'
                out.append((f'C15|csrf|{record["seam"]}|use|{cls}', f'{hist}: {got}'))
        else:
            got = im.tamper(act[1], act[2], issued_by[act[1]])
            if i == len(hist) - 1 and got != act[3]:
                out.append((f'C15|csrf|{record["seam"]}|tamper|accepted-but-model-forbids', f'{hist}: {got}'))
    return out
