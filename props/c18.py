"""C18 - the bundled validator accepts what the server generates and flags corruptions.

Accept side: every template x mode it supports x option vector (deviation level 1, level 2 inside
the timing/DRM/event groups for the thorough tier) x streams x clocks is validated by the real
DashValidator through a synchronous deterministic driver (mc/validator_driver.py): the session
must terminate within the round bound without an exception and report no error.
Detect side: for a set of base sessions every response of the session (exhaustive in the position)
is rewritten by every applicable corruption of a catalogue of unambiguous specification
violations; the validator must report at least one error (clause 1) whose location lies at the
manifest element the corruption belongs to (clause 2, separate signature).
"""
from __future__ import annotations

import datetime
import re
import struct

from mc import bmff, core, crawl, mpd, validator_driver as vd, world as W
from mc.explorer import deviation_vectors

ID = 'C18'
LEVEL = 'model_checking'
PREFORK_WORLD = {}
RULE = ('state = one validator session: (template, mode, stream, option vector, clock) for the accept side, (base '
        'session, response index, corruption) for the detect side; transition = one request of the session; '
        'non-trivial = a session that fetched and validated at least one media segment, or a corrupted session')
ASSUMPTIONS = [
    'the validator is driven as upstream\'s tests drive it (load, validate, sleep until publishTime + '
    'minimumUpdatePeriod, refresh) with an inline worker pool and the virtual clock; "terminates" = finished() '
    'within 12 rounds',
    'a configuration is "supported" when the manifest request answers 200',
    'corruption magnitudes are unambiguous violations: decode time moved by a whole segment, sequence number + 1, '
    'data_offset beyond the end of mdat, saio offset + 4, a whole mandatory box removed, one timeline entry dropped '
    '(gap), a mandatory MPD attribute removed, availabilityStartTime moved by an hour on a refresh only',
    '"located at the corrupted element": the error\'s line range intersects the enclosing AdaptationSet for '
    'segment-level corruptions and timeline gaps, and starts on the MPD start tag for MPD attributes',
]
NOW = datetime.datetime(2024, 3, 1, 12, 0, 3, 500000, tzinfo=datetime.timezone.utc)
CLOCKS = ('2024-03-01T12:00:03.500000Z', '2024-02-29T23:59:58.250000Z', '2024-01-01T00:00:30Z')
TEMPLATES = ('hand_made', 'manifest_a', 'manifest_b', 'manifest_e', 'manifest_ef', 'manifest_h', 'manifest_i',
             'manifest_n', 'manifest_vod_aiv')
MODES = ('live', 'vod', 'odvod')
ALPHABET = {
    'depth': [None, '8', '16', '30'],
    'mup': [None, '-1', '2'],
    'start': [None, 'epoch', 'today', '2024-02-29T23:59:50Z'],
    'timeline': [None, '1'],
    'patch': [None, '1'],
    'drm': [None, 'all', 'playready', 'clearkey', 'marlin', 'playready-pro', 'clearkey-moov,marlin'],
    'playready__version': [None, '1.0', '4.0'],
    'abr': [None, '0'],
    'acodec': [None, 'ec-3'],
    'base': [None, '0'],
    'events': [None, 'ping', 'scte35'],
    'ping__inband': [None, '0'],
    'time': [None, 'xsd', 'head', 'iso'],
    'leeway': [None, '0'],
    'drift': [None, '10'],
}
DEFAULTS = {k: None for k in ALPHABET}
GROUPS = [('depth', 'mup', 'timeline', 'patch', 'start'), ('drm', 'playready__version', 'timeline'),
          ('events', 'ping__inband', 'timeline', 'depth')]
MAX_ROUNDS = 12


def sig(*p):
    return 'C18|' + '|'.join(str(x) for x in p)


def family(template):
    return template


def opt_names(opts):
    return '+'.join(sorted(k for k, v in opts.items() if v is not None)) or 'default'


def err_site(e):
    return f'{e.assertion.filename}:{e.assertion.qualname}'


def msg_class(e):
    """The message with every number, URL and identifier-with-digits replaced: the kind of complaint."""
    m = e.msg if isinstance(e.msg, str) else str(e.msg)
    m = re.sub(r'https?://\S+', 'URL', m)
    m = re.sub(r'\b\w*\d[\w.:+-]*', '#', m)
    return re.sub(r'\s+', ' ', m)[:90]


def session(w, url, mode, opts, now, tamper=None, duration=None, encrypted=None):
    w.reset()
    W.set_now(now)
    if encrypted is None:
        encrypted = bool(opts.get('drm'))
    if duration is None:
        duration = 12 if mode == 'live' else 8
        if opts.get('events'):
            duration = 16
        if mode == 'live' and opts.get('depth') in ('8', '16'):
            duration = 24           # longer than the window: the session has to refresh
    return vd.Session(w, url, mode, duration, encrypted=encrypted, tamper=tamper, max_rounds=MAX_ROUNDS).run()


def window_class(body: bytes) -> str:
    """timeShiftBufferDepth and the longest segment duration of the manifest (what the live heuristics depend on)."""
    try:
        doc = mpd.Mpd(body, 'http://localhost/x.mpd')
        if doc.tsbd is None:
            return 'normal-window'
        longest = 0
        for rep in doc.all_reps():
            t = rep.template
            if t is None:
                continue
            ts = t.geti('timescale', 1)
            if t.timeline:
                longest = max(longest, max(d for _, d in t.timeline) / ts)
            elif t.geti('duration'):
                longest = max(longest, t.geti('duration') / ts)
        return f'window={float(doc.tsbd):g}s,longest-segment={float(longest):.0f}s'
    except Exception:
        return 'normal-window'


_layouts: dict = {}


def layout_of(stream):
    """What kind of stored media a synthetic stream is, as far as the validator's expectations go: segment durations that
    vary (a $Number$ template can only state their mean) and/or a first decode time that is not 0."""
    if stream not in _layouts:
        st = crawl.Stored.fixture(stream)
        irregular = offset = False
        for f in st.files.values():
            durs = {sg['duration'] for sg in f['segs'][:-1]}
            irregular |= len(durs) > 1
            offset |= bool(f['segs'] and f['segs'][0]['tfdt'])
        _layouts[stream] = '+'.join(x for x, on in (('irregular-durations', irregular), ('first-decode-time!=0', offset)) if on) \
            or 'regular'
    return _layouts[stream]


def accept_item(item):
    kind, stream, template, mode, opts, clocks, tier = item
    w = W.World.shared()
    w.begin_item()
    acc = core.Acc()
    mps = kind == 'mps'
    url = crawl.manifest_url(mode, stream, template, opts, mps=mps)
    for clock in clocks:
        W.set_now(clock)
        probe = w.get(url)
        acc.count('evaluations')
        acc.state((url, clock))
        if probe.status != 200:
            acc.outcome(('unsupported', mode, probe.status))
            continue
        s = session(w, url, mode, opts, clock, encrypted=b'<ContentProtection' in probe.body)
        acc.count('traces')
        acc.count('transitions', len(s.client.log))
        acc.count('evaluations')
        rec = {'kind': 'accept', 'url': url, 'mode': mode, 'now': clock, 'opts': opts, 'mps': mps, 'template': template}
        # findings on the synthetic layouts name the layout (each is a different kind of stored media)
        rec['tag'] = f'|layout={layout_of(stream)}' if stream in SYNTH_STREAMS else ''
        rec['short'] = stream in SYNTH_STREAMS
        judge_pristine(acc, s, url, mode, clock, probe.body, rec)
    return acc


def judge_pristine(acc, s, url, mode, clock, manifest_body, rec):
    """A session on unmodified server output: terminates, raises nothing, reports nothing."""
    media = sum(1 for _, k, _, st in s.client.log if k == 'media' and st in (200, 206))
    if media:
        acc.nontriv((url, str(clock)))
    acc.outcome(('accept', mode, 'errors' if s.errors else 'clean', 'finished' if s.finished else 'unfinished'))
    if s.client.exceptions:
        # a 5xx of the server inside the session is the server's defect (C16); recorded, the validator is judged on
        # what it was given
        acc.outcome(('server-exception', s.client.exceptions[0][1]))
    if s.crash:
        acc.violation(sig('accept', 'validator-exception', s.crash, mode) + rec.get('tag', ''),
                      f'{url} at {clock}: the validator raised {s.crash}', rec)
        return
    tag = rec.get('tag', '')
    seen = set()
    for e in s.errors:
        k = sig('accept', 'false-error', err_site(e), mode, msg_class(e)) + tag
        if k in seen:
            continue
        seen.add(k)
        acc.violation(k, f'{url} at {clock}: validator reports "{str(e)[:200]}" on pristine server output', rec)
    if not s.errors and not s.finished and mode != 'live' and rec.get('short'):
        # a static presentation shorter than the amount of media the validator was asked to collect can never "finish";
        # the runner of the validator (basic.py) makes at most two passes over a static manifest and stops
        acc.outcome(('static-shorter-than-requested', mode))
    elif not s.errors and not s.finished:
        acc.violation(sig('accept', 'does-not-terminate', mode, window_class(manifest_body)) + tag,
                      f'{url} at {clock}: not finished after {s.rounds} validate/refresh rounds '
                      f'({len(s.client.log)} requests)', rec)


# ---------------------------------------------------------------------------
# corruption catalogue
def _patch32(data: bytearray, pos: int, value: int):
    struct.pack_into('>I', data, pos, value & 0xFFFFFFFF)


def corrupt_media(kind: str, body: bytes):
    """-> corrupted bytes or None when the corruption does not apply to this segment."""
    try:
        frag = bmff.Fragment(body)
    except Exception:
        return None
    d = bytearray(body)
    traf = frag.traf
    if kind == 'tfdt+segment':
        t = traf.find('tfdt')
        if t is None or not frag.duration:
            return None
        v = bmff.tfdt(t)
        pos = t.start + t.hdr + 4
        if v['version'] == 1:
            struct.pack_into('>Q', d, pos, v['base_media_decode_time'] + frag.duration)
        else:
            _patch32(d, pos, v['base_media_decode_time'] + frag.duration)
        return bytes(d)
    if kind == 'sequence+1':
        m = frag.moof.find('mfhd')
        _patch32(d, m.start + m.hdr + 4, frag.mfhd['sequence_number'] + 1)
        return bytes(d)
    if kind == 'data_offset-beyond-mdat':
        pos = frag.trun['data_offset_pos']
        if pos is None:
            return None
        struct.pack_into('>i', d, pos, frag.trun['data_offset'] + frag.mdat.size + 64)
        return bytes(d)
    if kind == 'saio+4':
        s = traf.find('saio')
        if s is None:
            return None
        v, f, b = bmff.fullbox(s)
        p = s.start + s.hdr + 4 + (8 if f & 1 else 0)
        count = struct.unpack_from('>I', d, p)[0]
        if count < 1:
            return None
        if v == 0:
            _patch32(d, p + 4, struct.unpack_from('>I', d, p + 4)[0] + 4)
        else:
            struct.pack_into('>Q', d, p + 4, struct.unpack_from('>Q', d, p + 4)[0] + 4)
        return bytes(d)
    raise ValueError(kind)


def remove_box(body: bytes, path):
    """Remove the box at path (types from the top) and shrink every ancestor's size field."""
    root = bmff.parse(body)
    cur = root
    chain = []
    for p in path:
        nxt = cur.find(p)
        if nxt is None:
            return None
        chain.append(nxt)
        cur = nxt
    victim = chain[-1]
    d = bytearray(body)
    for anc in chain[:-1]:
        if anc.long_header:
            struct.pack_into('>Q', d, anc.start + 8, anc.size - victim.size)
        else:
            _patch32(d, anc.start, anc.size - victim.size)
    del d[victim.start:victim.end]
    return bytes(d)


INIT_REMOVALS = {'remove-moov': ('moov',), 'remove-mvex': ('moov', 'mvex'), 'remove-trex': ('moov', 'mvex', 'trex'),
                 'remove-tkhd': ('moov', 'trak', 'tkhd')}
MPD_ATTRS = ('minBufferTime', 'profiles', 'availabilityStartTime', 'publishTime')


def corrupt_manifest(kind: str, text: str, is_refresh: bool):
    """All edits keep the line structure (locations stay comparable)."""
    m = re.search(r'<MPD\b[^>]*>', text, re.S)
    if m is None:
        return None
    if kind.startswith('remove-@'):
        attr = kind[len('remove-@'):]
        tag = m.group(0)
        new = re.sub(r'\s' + attr + r'="[^"]*"', lambda mm: '\n' * mm.group(0).count('\n'), tag, count=1)
        if new == tag:
            return None
        return text[:m.start()] + new + text[m.end():]
    if kind == 'ast-moves-on-refresh':
        if not is_refresh:
            return None
        mm = re.search(r'availabilityStartTime="(\d{4}-\d\d-\d\dT)(\d\d)(:[^"]*)"', text)
        if mm is None:
            return None
        hour = (int(mm.group(2)) + 1) % 24
        return text[:mm.start()] + f'availabilityStartTime="{mm.group(1)}{hour:02d}{mm.group(3)}"' + text[mm.end():]
    if kind == 'timeline-gap':
        tl = re.search(r'<SegmentTimeline>(.*?)</SegmentTimeline>', text, re.S)
        if tl is None:
            return None
        entries = list(re.finditer(r'<S\b([^>]*)/>', tl.group(1)))
        if not entries:
            return None

        def attrs(e):
            return dict(re.findall(r'(\w+)="([^"]*)"', e.group(1)))
        # find an entry to drop one segment from: the second of two entries, or split a repeated one
        base = tl.start(1)
        first = attrs(entries[0])
        if 'd' not in first:
            return None
        d0 = int(first['d'])
        r0 = int(first.get('r', 0))
        t0 = int(first.get('t', 0))
        if r0 >= 2:
            new = f'<S t="{t0}" d="{d0}" r="0"/><S t="{t0 + 2 * d0}" d="{d0}" r="{r0 - 2}"/>'
            s, e = base + entries[0].start(), base + entries[0].end()
            return text[:s] + new + text[e:]
        if len(entries) >= 3:
            # drop the second entry, give the third an explicit (later) start
            a1, a2 = attrs(entries[1]), attrs(entries[2])
            t2 = t0 + d0 * (r0 + 1) + int(a1['d']) * (int(a1.get('r', 0)) + 1)
            rest = ' '.join(f'{k}="{v}"' for k, v in a2.items() if k != 't')
            new = f'<S t="{t2}" {rest}/>'
            s, e = base + entries[1].start(), base + entries[2].end()
            return text[:s] + new + text[e:]
        return None
    raise ValueError(kind)


def element_ranges(text: str):
    """-> ((first, last) line of the MPD start tag, [(first_line, last_line, rep_ids)] per AdaptationSet)."""
    lines = text.split('\n')
    mpd_first = next((i + 1 for i, l in enumerate(lines) if '<MPD' in l), 1)
    mpd_last = next((i + 1 for i, l in enumerate(lines) if i + 1 >= mpd_first and '>' in l.split('<MPD')[-1]), mpd_first)
    sets = []
    start = None
    for i, l in enumerate(lines, 1):
        if '<AdaptationSet' in l:
            start = i
        if '</AdaptationSet>' in l and start is not None:
            block = '\n'.join(lines[start - 1:i])
            sets.append((start, i, re.findall(r'<Representation\b[^>]*\bid="([^"]+)"', block)))
            start = None
    return (mpd_first, mpd_last), sets


CORRUPTIONS = {
    'media': ['tfdt+segment', 'sequence+1', 'data_offset-beyond-mdat', 'saio+4'],
    'init': list(INIT_REMOVALS),
    'manifest': ['remove-@' + a for a in MPD_ATTRS] + ['ast-moves-on-refresh', 'timeline-gap'],
}

BASES = [
    # (name, url, mode, opts)
    ('vod-number', '/dash/vod/bbb/hand_made.mpd', 'vod', {}),
    ('live-number', '/dash/live/bbb/hand_made.mpd?depth=8', 'live', {'depth': '8'}),
    ('live-timeline', '/dash/live/bbb/hand_made.mpd?depth=8&timeline=1', 'live', {'depth': '8', 'timeline': '1'}),
    ('vod-timeline', '/dash/vod/bbb/hand_made.mpd?timeline=1', 'vod', {'timeline': '1'}),
    ('vod-cenc', '/dash/vod/bbb/hand_made.mpd?drm=all', 'vod', {'drm': 'all'}),
    ('live-cenc-timeline', '/dash/live/bbb/manifest_e.mpd?depth=8&drm=playready&timeline=1', 'live',
     {'depth': '8', 'drm': 'playready', 'timeline': '1'}),
    ('live-tears', '/dash/live/tears/hand_made.mpd?depth=8', 'live', {'depth': '8'}),
    # on-demand profile: every media request is a byte range of one file
    ('odvod', '/dash/odvod/bbb/manifest_vod_aiv.mpd', 'odvod', {}),
    ('mps-vod', '/mps/vod/testmps/hand_made.mpd', 'vod', {}),
    ('live-patch', '/dash/live/bbb/hand_made.mpd?depth=8&timeline=1&patch=1', 'live', {'depth': '8', 'timeline': '1', 'patch': '1'}),
    ('live-events', '/dash/live/bbb/hand_made.mpd?depth=30&events=ping', 'live', {'depth': '30', 'events': 'ping'}),
]
# thorough tier only
MORE_BASES = [
    ('odvod-hand-made', '/dash/odvod/bbb/hand_made.mpd', 'odvod', {}),
    ('vod-tears-timeline', '/dash/vod/tears/manifest_e.mpd?timeline=1', 'vod', {'timeline': '1'}),
]


def intersects(e, a, b):
    loc = e.location
    if loc is None or loc.start is None:
        return False
    end = loc.end if loc.end is not None else loc.start
    return loc.start <= b and end >= a


def make_tamper(target_url, occurrence, corruption):
    """Rewrite the occurrence-th GET of target_url (request order inside a session is not fixed: the validator keys
    elements by id())."""
    state = {'applied': False, 'manifests': 0, 'seen': 0, 'url': None}

    def tamper(idx, kind, url, resp):
        if kind == 'manifest':
            state['manifests'] += 1
        if url != target_url:
            return None
        state['seen'] += 1
        if state['seen'] - 1 != occurrence or resp.status_code not in (200, 206):
            return None
        body = resp.get_data(as_text=False)
        if kind == 'media':
            new = corrupt_media(corruption, body)
        elif kind == 'init':
            new = remove_box(body, INIT_REMOVALS[corruption])
        elif kind == 'manifest':
            t = corrupt_manifest(corruption, body.decode('utf-8'), state['manifests'] > 1)
            new = t.encode('utf-8') if t is not None else None
        else:
            new = None
        if new is None or new == body:
            return None
        state['applied'] = True
        state['url'] = url
        return vd.VResponse(resp._r, body=new)
    return tamper, state


def targets_of(log):
    """-> [(kind, url, occurrence, is_first_media_of_its_representation)] in a canonical order."""
    count = {}
    out = []
    seen_rep = set()
    for idx, kind, url, status in log:
        k = count.get(url, 0)
        count[url] = k + 1
        first = False
        if kind == 'media':
            rep = url.split('?')[0].rsplit('/', 2 if '/time/' in url else 1)[0]
            first = rep not in seen_rep
            seen_rep.add(rep)
        out.append((kind, url, k, first))
    return sorted(out)


def detect_item(item):
    name, url, mode, opts, lo, hi, tier = item
    w = W.World.shared()
    w.begin_item()
    acc = core.Acc()
    base = session(w, url, mode, opts, NOW)
    acc.count('traces')
    if base.errors or base.crash or not base.finished:
        # the base session itself is not clean: that is an accept-side violation (reported once, by the first chunk);
        # nothing can be judged against it
        if lo == 0:
            first = base.client.manifest_texts[0].encode('utf-8') if base.client.manifest_texts else b''
            judge_pristine(acc, base, url, mode, crawl.iso(NOW), first,
                           {'kind': 'accept', 'url': url, 'mode': mode, 'now': crawl.iso(NOW), 'opts': opts, 'mps': url.startswith('/mps'),
                            'template': url.split('/')[-1].split('.')[0]})
        acc.outcome(('base-not-clean', name))
        acc.notes.setdefault('detect_bases_not_clean', {})[name] = [str(e)[:160] for e in base.errors[:3]] or [str(base.crash)]
        return acc
    for kind, rurl, occ, first in targets_of(base.client.log)[lo:hi]:
        idx = f'{rurl.replace("http://localhost", "")}#{occ}'
        for corruption in CORRUPTIONS.get(kind, []):
            # the first media segment fetched of a representation has no predecessor: its sequence number can not be "wrong"
            if corruption == 'sequence+1' and first:
                continue
            if corruption in ('remove-@availabilityStartTime', 'remove-@publishTime') and mode != 'live':
                continue        # mandatory for type="dynamic" only
            tamper, state = make_tamper(rurl, occ, corruption)
            s = session(w, url, mode, opts, NOW, tamper=tamper)
            acc.count('transitions', len(s.client.log))
            if not state['applied']:
                acc.outcome(('corruption-not-applicable', kind, corruption))
                continue
            acc.count('traces')
            acc.count('evaluations', 2)
            acc.state((name, idx, corruption))
            acc.nontriv((name, idx, corruption))
            rec = {'kind': 'detect', 'base': name, 'occurrence': occ, 'corruption': corruption, 'url': rurl}
            if s.crash:
                acc.violation(sig('detect', 'validator-exception', corruption, s.crash),
                              f'{name}: response {idx} ({kind}) corrupted by {corruption}: the validator raised '
                              f'{s.crash} instead of reporting an error', rec)
                continue
            if not s.errors:
                acc.violation(sig('detect', 'undetected', corruption, name),
                              f'{name}: response {idx} ({kind}) corrupted by {corruption}: no error reported '
                              f'(session finished={s.finished}, {len(s.client.log)} requests)', rec)
                continue
            acc.outcome(('detected', corruption))
            # location clause. An error carries line numbers of the manifest text that was current when it was raised:
            # every manifest version of the session (fetched, or produced by applying a patch) is a candidate
            texts = list(s.client.manifest_texts) + ['\n'.join(s.dv.get_manifest_lines())]
            mpd_lines, sets = [], []
            for text in texts:
                ml, ss = element_ranges(text)
                mpd_lines.append(ml)
                if kind == 'manifest':
                    sets += ss[:1]
                else:
                    path = rurl.split('?')[0]
                    sets += [(a, b, ids) for a, b, ids in ss if any(f'/{i}/' in path or f'/{i}.' in path for i in ids)]
            mpd_line = (min(a for a, _ in mpd_lines), max(b for _, b in mpd_lines))
            if kind in ('media', 'init') or corruption == 'timeline-gap':
                want = sorted(set((a, b) for a, b, _ in sets))
                want = [(a, b, None) for a, b in want]
                if not want:
                    acc.outcome(('location-not-judged', corruption))
                    continue
                ok = any(intersects(e, a, b) for e in s.errors for a, b, _ in want)
                if not ok:
                    acc.violation(sig('detect', 'mislocated', corruption, name),
                                  f'{name}: response {idx} ({kind}) corrupted by {corruption}: errors are reported at '
                                  f'lines {[str(e.location) for e in s.errors[:4]]}, the owning AdaptationSet spans '
                                  f'{[(a, b) for a, b, _ in want]}', rec)
            else:
                ok = any(intersects(e, mpd_line[0], mpd_line[1]) for e in s.errors)
                if not ok:
                    acc.violation(sig('detect', 'mislocated', corruption, name),
                                  f'{name}: manifest response {idx} corrupted by {corruption}: errors are reported at lines '
                                  f'{[str(e.location) for e in s.errors[:4]]}, the MPD start tag spans lines {mpd_line}', rec)
    return acc


def _dispatch(item):
    if item[0] == 'detect':
        return detect_item(item[1:])
    return accept_item(item)


SYNTH_STREAMS = ('synirr', 'synoff', 'synnot', 'synenc', 'synwild', 'synnum', 'synmk', 'syndef', 'syntrk', 'synzero')


def vectors(tier):
    out = []
    for lv in ((0, 1) if tier == 'quick' else (0, 1, 2)):
        out += list(deviation_vectors(DEFAULTS, ALPHABET, lv, groups=GROUPS))
    return out


def plan(tier):
    items = []
    vecs = vectors(tier)
    for template in TEMPLATES:
        for mode in MODES:
            for opts in vecs:
                o = {k: v for k, v in opts.items() if v is not None}
                primary = template in ('hand_made', 'manifest_e', 'manifest_vod_aiv')
                clocks = CLOCKS if (tier != 'quick' and primary) else CLOCKS[:1]
                items.append(('plain', 'bbb', template, mode, o, clocks, tier))
                if primary and (tier != 'quick' or len(o) == 0 or set(o) & {'timeline', 'drm', 'events', 'depth'}):
                    for stream in ('tears',):
                        items.append(('plain', stream, template, mode, o, CLOCKS[:1], tier))
    # sessions that have to refresh: timelines, with and without patches (three deviations from the defaults)
    for stream in ('bbb', 'tears'):
        for template in ('hand_made', 'manifest_e'):
            for o in ({'depth': '8', 'timeline': '1'}, {'depth': '8', 'timeline': '1', 'patch': '1'},
                      {'depth': '16', 'timeline': '1', 'patch': '1'}, {'depth': '8', 'timeline': '1', 'patch': '1', 'mup': '2'}):
                items.append(('plain', stream, template, 'live', o, CLOCKS[:1], tier))
    # encrypted media together with in-band events (emsg boxes in front of the moof that the saio offset counts from)
    for template in ('hand_made', 'manifest_n'):
        for mode in ('vod', 'live'):
            for o in ({'drm': 'all', 'events': 'ping'}, {'drm': 'playready', 'events': 'scte35', 'timeline': '1'},
                      {'drm': 'clearkey', 'events': 'ping,scte35', 'ping__interval': '150'}):
                oo = dict(o)
                if mode == 'live':
                    oo['depth'] = '30'      # (bbb has a text track with 10 s segments: see the window findings)
                items.append(('plain', 'bbb', template, mode, oo, CLOCKS[:1], tier))
    # the kinds of stored media: every synthetic stream (irregular durations, non-zero first decode time, no tfdt, fragment
    # numbers from 7, default durations from tfhd/trex, track ids 3/5 with padding boxes, 8/16-byte IVs in either order,
    # sub-samples, two key ids, audio under its own key)
    for stream in SYNTH_STREAMS:
        for mode in ('vod', 'live'):
            for o in ({}, {'timeline': '1'}) + (({'drm': 'all'}, {'drm': 'playready', 'timeline': '1'})
                                                if stream in ('synenc', 'synmk') else ()):
                oo = dict(o)
                if mode == 'live':
                    oo['depth'] = '20'
                items.append(('plain', stream, 'hand_made', mode, oo, CLOCKS[:1], tier))
    for mode in ('live', 'vod'):
        for o in ({}, {'timeline': '1'}, {'depth': '8'}, {'depth': '20', 'timeline': '1'}, {'events': 'ping'}):
            oo = dict(o)
            if mode == 'live':
                oo.setdefault('depth', '20')
            items.append(('mps', 'testmps', 'hand_made', mode, oo, CLOCKS[:1], tier))
    w = W.World.shared()
    for name, url, mode, opts in (BASES if tier == 'quick' else BASES + MORE_BASES):
        base = session(w, url, mode, opts, NOW)
        n = len(targets_of(base.client.log))
        step = 3
        for lo in range(0, n, step):
            items.append(('detect', name, url, mode, opts, lo, lo + step, tier))
    return items


def run(ctx):
    items = plan(ctx.tier)
    ctx.merge_all(ctx.pmap(_dispatch, items))
    n_detect = sum(1 for i in items if i[0] == 'detect')
    ctx.extra.update(accept_configurations=len(items) - n_detect, detect_items=n_detect, base_sessions=[b[0] for b in BASES],
                     corruption_catalogue=CORRUPTIONS, option_vectors=len(vectors(ctx.tier)),
                     levels_completed=f'accept: {len(TEMPLATES)} templates x 3 modes x {len(vectors(ctx.tier))} option vectors '
                                      f'(deviation level {"1" if ctx.quick else "2 inside the groups"}) on bbb, reduced '
                                      f'set on tears/synirr/synenc and the multi-period stream; detect: every response of '
                                      f'{len(BASES)} base sessions x every applicable corruption')


def replay(record):
    w = W.World.shared()
    acc = core.Acc()
    if record['kind'] == 'accept':
        url = record['url']
        s = session(w, url, record['mode'], record['opts'], record['now'])
        out = []
        if s.crash:
            out.append((sig('accept', 'validator-exception', s.crash, record['mode']) + record.get('tag', ''), s.crash))
        for e in s.errors:
            out.append((sig('accept', 'false-error', err_site(e), record['mode'], msg_class(e)) + record.get('tag', ''), str(e)[:200]))
        if not s.errors and not s.crash and not s.finished:
            out.append((sig('accept', 'does-not-terminate', record['mode'], window_class(w.get(mpd.split_url(url) if url.startswith('http') else url).body)) + record.get('tag', ''), 'unfinished'))
        return out
    base = next(b for b in BASES + MORE_BASES if b[0] == record['base'])
    name, url, mode, opts = base
    b = session(w, url, mode, opts, NOW)
    tg = targets_of(b.client.log)
    pos = next((i for i, t in enumerate(tg) if t[1] == record['url'] and t[2] == record['occurrence']), None)
    if pos is None:
        return []
    a = detect_item((name, url, mode, opts, pos, pos + 1, 'quick'))
    out = []
    for sg, lst in a.viol.items():
        if lst[0]['record'].get('corruption') == record['corruption']:
            out.append((sg, lst[0]['what']))
    return out
