"""C11 - DRM key and licence data is cryptographically and structurally correct.

Bounded-exhaustive product over structured key/kid/seed/URL/version alphabets on
the PlayReady helpers (independent hashlib / uuid / own-AES oracle), every
ClearKey request over a 6-symbol id alphabet up to length 3, and every DRM
selection x location through manifests whose ContentProtection elements are
compared with what the init segment of the same request carries.
"""
from __future__ import annotations

import base64
import datetime
import hashlib
import itertools
import json
import re
import struct
import uuid

from lxml import etree

from mc import aes128, bmff, core, crawl, mpd, world as W
from props import c10

ID = 'C11'
LEVEL = 'model_checking'
PREFORK_WORLD = {}
RULE = ('state = one tuple of the value alphabets (kid, key/seed, licence URL, versions) or one ClearKey request or one '
        '(DRM selection, template, mode); all tuples enumerated; non-trivial = a tuple whose generated object was '
        'decoded and compared with the independent oracle')
ASSUMPTIONS = [
    'key-seed algorithm as published by Microsoft (SHA-256 of seed[:30]||kid, ||seed, ||kid; XOR fold), kid in GUID order',
    'GUID order = uuid.UUID(bytes=kid).bytes_le; checksum = first 8 bytes of AES-128-ECB(key, kid_le) by mc/aes128.py',
    'header version compatibility: 4.3 needs PlayReady >= 4.0, 4.2 >= 3.0, 4.1 >= 2.0',
]
NOW = datetime.datetime(2024, 3, 1, 12, 0, 3, 500000, tzinfo=datetime.timezone.utc)
MSPR_NS = 'http://schemas.microsoft.com/DRM/2007/03/PlayReadyHeader'


def byte_patterns():
    pats = [bytes(16), bytes([0xFF] * 16), bytes(range(16)), bytes(range(15, -1, -1))]
    for bit in range(128):
        b = bytearray(16)
        b[bit // 8] = 1 << (bit % 8)
        pats.append(bytes(b))
    for i in range(16):
        b = bytearray(16)
        b[i] = 0xFF
        pats.append(bytes(b))
    pats.append(bytes.fromhex('1ab45440532c439994dc5c5ad9584bac'))
    pats.append(bytes.fromhex('0123456789abcdef0123456789abcdef'))
    return pats


def seeds():
    base = base64.b64decode('XVBovsmzhP9gRIZxWfFta3VVRPzVEWmJsazEJ46I')
    out = [base]
    for n in (30, 31, 32, 40):
        out.append(bytes((i * 7 + n) & 0xFF for i in range(n)))
        out.append(bytes(n))
        out.append(bytes([0xFF] * n))
    # a seed that differs only after byte 30 must give the same key
    out.append(base[:30] + b'XXXXXXXXXX')
    return out


def ref_content_key(kid: bytes, seed: bytes) -> bytes:
    kid_le = uuid.UUID(bytes=kid).bytes_le
    s = seed[:30]
    a = hashlib.sha256(s + kid_le).digest()
    b = hashlib.sha256(s + kid_le + s).digest()
    c = hashlib.sha256(s + kid_le + s + kid_le).digest()
    return bytes(a[i] ^ a[i + 16] ^ b[i] ^ b[i + 16] ^ c[i] ^ c[i + 16] for i in range(16))


def sig(*p):
    return 'C11|' + '|'.join(str(x) for x in p)


def pure_keys(_):
    from dashlive.drm.playready import PlayReady
    acc = core.Acc()
    pats = byte_patterns()
    for kid in pats:
        acc.count('evaluations')
        rec = {'kind': 'guid', 'kid': kid.hex()}
        want = uuid.UUID(bytes=kid).bytes_le
        got = PlayReady.hex_to_le_guid(kid, raw=True)
        if bytes(got) != want:
            acc.violation(sig('guid-order', 'raw'), f'hex_to_le_guid({kid.hex()}) = {bytes(got).hex()}, bytes_le is {want.hex()}', rec)
        txt = PlayReady.hex_to_le_guid(str(uuid.UUID(bytes=kid)), raw=False)
        if txt.replace('-', '').lower() != want.hex():
            acc.violation(sig('guid-order', 'text'), f'hex_to_le_guid("{uuid.UUID(bytes=kid)}") = {txt}', rec)
        acc.state(('guid', kid.hex()))
        acc.nontriv(('guid', kid.hex()))
        for seed in seeds():
            acc.count('evaluations')
            got = bytes(PlayReady.generate_content_key(kid, seed))
            want = ref_content_key(kid, seed)
            acc.state(('key', kid.hex(), seed.hex()))
            acc.nontriv(('key', kid.hex(), seed.hex()))
            if got != want:
                acc.violation(sig('content-key', f'seedlen={len(seed)}'),
                              f'generate_content_key(kid={kid.hex()}, seed={seed.hex()}) = {got.hex()}, the published '
                              f'algorithm gives {want.hex()}', {'kind': 'key', 'kid': kid.hex(), 'seed': seed.hex()})
    for n in (0, 16, 29):
        acc.count('evaluations')
        try:
            PlayReady.generate_content_key(pats[2], bytes(n))
            acc.violation(sig('content-key', 'short-seed-accepted'), f'a {n}-byte seed was accepted',
                          {'kind': 'shortseed', 'n': n})
        except ValueError:
            pass
    return acc


LA_URLS = [None, 'https://lic.example/rights', 'https://lic.example/r?a=1&b=2', 'https://lic.example/r?cfg={cfgs}',
           'https://lic.example/{default_kid}/x', 'https://lic.example/r?q=<tag>"\'']


def pure_pro(arg):
    """PRO generation/parsing over kids x key-set size x la_url x versions (needs an app context for templates)."""
    kid_idx = arg
    from dashlive.drm.playready import PlayReady
    from dashlive.drm.key_tuple import KeyTuple
    from dashlive.drm.keymaterial import KeyMaterial
    from dashlive.utils.buffered_reader import BufferedReader
    w = W.World.shared()
    acc = core.Acc()
    pats = byte_patterns()
    kid = pats[kid_idx]
    others = [pats[(kid_idx + 5) % len(pats)], pats[(kid_idx + 11) % len(pats)]]
    with w.app.test_request_context('/'):
        for nkeys in (1, 2, 3):
            kids = [kid] + others[:nkeys - 1]
            if len(set(kids)) != len(kids):
                continue
            for computed in (True, False):
                keys = {}
                for k in kids:
                    keyb = ref_content_key(k, seeds()[0]) if computed else bytes((b ^ 0x5A) for b in k)
                    kt = KeyTuple(KID=KeyMaterial(raw=k), KEY=KeyMaterial(raw=keyb), ALG='AESCTR')
                    try:
                        kt = KeyTupleX(kt, computed)
                    except Exception:
                        pass
                    keys[k.hex()] = kt
                for la in LA_URLS:
                    for ver in (None, 1.0, 2.0, 3.0, 4.0):
                        for hv in (None, 4.0, 4.1, 4.2, 4.3):
                            acc.count('evaluations')
                            rec = {'kind': 'pro', 'kid_idx': kid_idx, 'nkeys': nkeys, 'computed': computed, 'la': la,
                                   'ver': ver, 'hv': hv}
                            pr = PlayReady(la_url=None, version=ver, header_version=hv)
                            try:
                                pro = pr.generate_pro(la, kid.hex(), keys, None)
                            except ValueError as e:
                                acc.outcome(('refused', str(e)[:30]))
                                continue
                            except Exception as e:
                                acc.violation(sig('pro-raises', type(e).__name__), f'{rec}: {type(e).__name__}: {e}', rec)
                                continue
                            acc.state(('pro', kid.hex(), nkeys, computed, la, ver, hv))
                            check_pro(acc, rec, pro, kid, kids, keys, la, ver, hv, PlayReady, BufferedReader)
    return acc


class KeyTupleX:
    """KeyTuple plus the `computed` attribute the header generator reads."""

    def __init__(self, kt, computed):
        self.KID, self.KEY, self.ALG = kt.KID, kt.KEY, kt.ALG
        self.computed = computed


def check_pro(acc, rec, pro, kid, kids, keys, la, ver, hv, PlayReady, BufferedReader):
    def bad(clause, text):
        acc.violation(sig('pro', clause), f'{rec}: {text}', rec)
    try:
        recs = c10.parse_pro(pro)
    except Exception as e:
        bad('structure', str(e))
        return
    hdrs = [v for t, v in recs if t == 1]
    if len(hdrs) != 1:
        bad('records', f'{len(hdrs)} WRMHEADER records')
        return
    try:
        parsed = PlayReady.parse_pro(BufferedReader(None, data=pro))
        if len(parsed) != 1 or parsed[0].xml is None:
            bad('own-parser', f'parse_pro returned {parsed}')
    except Exception as e:
        bad('own-parser-raises', f'{type(e).__name__}: {e}')
    try:
        root = etree.fromstring(hdrs[0].decode('utf-16-le').encode('utf-8'))
    except Exception as e:
        bad('wrmheader-not-well-formed', str(e)[:120])
        return
    acc.nontriv(('pro', kid.hex(), rec['nkeys'], rec['computed'], la, ver, hv))
    version = root.get('version')
    kid_le = uuid.UUID(bytes=kid).bytes_le
    found = []
    for el in root.iter():
        tag = el.tag.split('}')[-1]
        if tag == 'KID':
            val = el.get('VALUE') or (el.text or '').strip()
            cs = el.get('CHECKSUM')
            found.append((base64.b64decode(val), None if cs is None else base64.b64decode(cs)))
        elif tag == 'CHECKSUM' and found and found[-1][1] is None:
            found[-1] = (found[-1][0], base64.b64decode((el.text or '').strip()))
    named = [k for k, _ in found]
    if kid_le not in named:
        bad('kid', f'WRMHEADER names {[k.hex() for k in named]}, default KID in GUID order is {kid_le.hex()}')
    if not version or not version.startswith('4.0'):
        want = {uuid.UUID(bytes=k).bytes_le for k in kids}
        if set(named) != want and not version.startswith('4.1'):
            bad('kids', f'WRMHEADER names {[k.hex() for k in named]}, key set is {[k.hex() for k in want]}')
    for k_le, cs in found:
        src = [k for k in kids if uuid.UUID(bytes=k).bytes_le == k_le]
        if src and cs is not None:
            key = keys[src[0].hex()].KEY.raw
            want = aes128.encrypt_block(bytes(key), k_le)[:8]
            if cs != want:
                bad('checksum', f'CHECKSUM {cs.hex()} for KID {k_le.hex()}, AES-ECB(key, kid)[:8] = {want.hex()}')
    la_el = [el for el in root.iter() if el.tag.split('}')[-1] == 'LA_URL']
    if la is not None and '{' not in la:
        if not la_el or (la_el[0].text or '') != la:
            bad('la-url', f'LA_URL is {(la_el[0].text if la_el else None)!r}, requested {la!r}')
    elif la is not None:
        # a licence URL with format fields: {default_kid} is the key id as tenc carries it (hex), {cfgs} one
        # "(kid:<base64 of the GUID form>,...)" group per key; nothing of the template syntax is left over
        text = (la_el[0].text or '') if la_el else ''
        want = la.replace('{default_kid}', kid.hex())
        if '{cfgs}' in want:
            head, tail = want.split('{cfgs}', 1)
            ok = text.startswith(head) and text.endswith(tail) and '{' not in text and '}' not in text and all(
                'kid:' + base64.b64encode(uuid.UUID(bytes=k).bytes_le).decode() in text for k in kids)
        else:
            ok = text == want
        if not ok:
            bad('la-url|format-fields', f'LA_URL is {text!r}, the template {la!r} filled in for key id {kid.hex()} gives {want!r}')
    if hv is not None and version and not version.startswith(f'{hv:.1f}'):
        bad('header-version', f'WRMHEADER version {version}, requested {hv}')
    if hv is None and ver is not None and version:
        v = float(version[:3])
        if (v == 4.3 and ver < 4.0) or (v == 4.2 and ver < 3.0) or (v == 4.1 and ver < 2.0):
            bad('version-compat', f'header {version} with PlayReady {ver}')


# ---------------------------------------------------------------------------
def b64u(b):
    return base64.urlsafe_b64encode(b).rstrip(b'=').decode()


def clearkey_requests(_):
    w = W.World.shared()
    w.begin_item()
    acc = core.Acc()
    with w.appctx():
        stored = {k.hkid: (k.hkey.decode() if isinstance(k.hkey, bytes) else k.hkey) for k in w.models.Key.all()}
    known = sorted(stored)[:2]
    sym = {
        'known1': b64u(bytes.fromhex(known[0])), 'known2': b64u(bytes.fromhex(known[1])),
        'unknown': b64u(bytes(range(16))), 'dup': b64u(bytes.fromhex(known[0])),
        'malformed': '!!not*base64', 'wronglen': b64u(b'\x01\x02\x03'),
    }
    names = list(sym)
    for n in (0, 1, 2, 3):
        for combo in itertools.product(names, repeat=n):
            kids = [sym[c] for c in combo]
            r = w.request('POST', '/clearkey', json_body={'kids': kids, 'type': 'temporary'})
            acc.count('evaluations')
            acc.count('transitions')
            acc.state(('clearkey', combo))
            rec = {'kind': 'clearkey', 'combo': list(combo)}
            if r.status >= 500 or r.exc:
                acc.violation(sig('clearkey', '5xx', W.crash_signature(r.exc)), f'kids={combo}: status {r.status}', rec)
                continue
            if r.status != 200:
                acc.outcome(('clearkey', r.status))
                continue
            try:
                js = r.json()
            except Exception:
                acc.violation(sig('clearkey', 'not-json'), f'kids={combo}', rec)
                continue
            if any(c in ('malformed',) for c in combo):
                acc.outcome(('clearkey-malformed', 'error' in js and js['error'] is not None))
                if js.get('keys'):
                    pass
                continue
            acc.nontriv(('clearkey', combo))
            want = {}
            for c in combo:
                if c in ('known1', 'dup'):
                    want[sym['known1']] = b64u(bytes.fromhex(stored[known[0]]))
                elif c == 'known2':
                    want[sym['known2']] = b64u(bytes.fromhex(stored[known[1]]))
            got = {}
            for item in js.get('keys') or []:
                if item.get('kty') != 'oct':
                    acc.violation(sig('clearkey', 'kty'), f'kids={combo}: {item}', rec)
                if item['kid'] in got:
                    acc.outcome('clearkey-duplicate-entry')
                got[item['kid']] = item['k']
            if got != want:
                acc.violation(sig('clearkey', 'keys'), f'kids={combo}: returned {got}, stored keys for the requested '
                              f'known ids are {want}', rec)
            for kk in list(got) + list(got.values()):
                if '=' in kk or '+' in kk or '/' in kk:
                    acc.violation(sig('clearkey', 'encoding'), f'{kk!r} is not unpadded base64url', rec)
    return acc


KEY_OPS = ['add key (PUT computed)', 'add key (POST form)', 'add key (POST form, kid typed in upper case)', 'edit key 1', 'delete the key used by the encrypted files',
           'delete the key used by the encrypted files (POST form)', 'delete the unused key (POST form)',
           'add key (PUT explicit, duplicate kid)']


def clearkey_history(first):
    """The licence endpoint after every step of a key-management history (operation alphabet of C17): it answers from
    the key table as it is now. All histories of length <= 3 that start with `first`; the endpoint is asked for every key
    id that was ever in the table (and one that never was) before the history and after each step."""
    from props import c17
    env = c17.Env.get()
    acc = core.Acc()
    table = {n: fn for n, _, fn in c17.ACTIONS}
    ever = set()

    def table_now():
        with env.w.appctx():
            out = {k.hkid.lower(): (k.hkey.decode() if isinstance(k.hkey, bytes) else k.hkey) for k in env.w.models.Key.all()}
            env.w.models.db.session.remove()
        return out

    def ask(hist):
        stored = table_now()
        ever.update(stored)
        kids = sorted(ever) + ['000102030405060708090a0b0c0d0e0f']
        r = env.w.request('POST', '/clearkey', json_body={'kids': [b64u(bytes.fromhex(k)) for k in kids], 'type': 'temporary'})
        acc.count('evaluations')
        acc.count('transitions')
        rec = {'kind': 'clearkey-history', 'history': list(hist)}
        if r.status != 200:
            acc.violation(sig('clearkey-history', f'status-{r.status}'), f'after {list(hist)}: POST /clearkey answered {r.status}', rec)
            return
        got = {i['kid']: i['k'] for i in (r.json().get('keys') or [])}
        want = {b64u(bytes.fromhex(k)): b64u(bytes.fromhex(v)) for k, v in stored.items()}
        acc.nontriv(('clearkey-history', tuple(hist)))
        if got != want:
            stale = sorted(set(got) - set(want))
            acc.violation(sig('clearkey-history', 'answers-for-a-deleted-key' if stale else 'key-value-not-the-stored-one'),
                          f'after {list(hist)}: the licence endpoint returned {got}, the key table holds {want}', rec)

    def run(hist):
        env.w.restore(env.snap0)
        env.rc.cookies_restore(env.cookies)
        ask(())
        for i, name in enumerate(hist):
            W.set_now(c17.NOW)
            table[name](env, env.lookup(), env.tokens())
            ask(hist[:i + 1])
        acc.state(('clearkey-history', tuple(hist)))
    run((first,))
    for b in KEY_OPS:
        run((first, b))
        for c in KEY_OPS:
            run((first, b, c))
    env.w.restore(env.snap0)
    return acc


def manifest_protection(item):
    """ContentProtection elements of a manifest vs the DRM selection and vs the init segment of the same request."""
    template, mode, drm, sel = item[:4]
    stream = item[4] if len(item) > 4 else 'bbb'
    ver = item[5] if len(item) > 5 else None
    w = W.World.shared()
    w.begin_item()
    acc = core.Acc()
    W.set_now(NOW)
    q = {'drm': drm}
    if mode == 'live':
        q['depth'] = '30'
    if ver:
        q['playready__version'] = ver
    url = crawl.manifest_url(mode, stream, template, q)
    r = w.get(url)
    acc.count('evaluations')
    acc.count('transitions')
    acc.outcome(('manifest', r.status))
    rec = {'kind': 'manifest', 'template': template, 'mode': mode, 'drm': drm, 'stream': stream, 'version': ver,
           'sel': {k: sorted(v) for k, v in sel.items()}}
    if r.status != 200:
        return acc
    try:
        doc = mpd.Mpd(r.body, 'http://localhost' + url.split('?')[0])
    except Exception:
        return acc
    acc.count('traces')
    acc.state((template, mode, drm, stream, ver))
    st = crawl.Stored.fixture(stream)

    def bad(clause, text):
        acc.violation(sig('manifest', clause), f'{url}: {text}', rec)
    # a DRM selection that names at least one system makes the manifest list the encrypted files of the stream (both
    # streams used here have them): a document of clear Representations without ContentProtection ignored the request
    if sel:
        reps = [r_ for r_ in doc.all_reps() if r_.id in st.files and r_.content_type in ('video', 'audio')]
        if reps and not any(st.files[r_.id]['init'].encrypted for r_ in reps):
            bad('selection-ignored', f'drm={drm} lists only clear media: {sorted(r_.id for r_ in reps)}')
    seen = set()
    for rep in doc.all_reps():
        if id(rep.adp_el) in seen or rep.id not in st.files:
            continue
        seen.add(id(rep.adp_el))
        init = st.files[rep.id]['init']
        cps = list(rep.adp_el.findall(mpd.Q + 'ContentProtection')) + list(rep.el.findall(mpd.Q + 'ContentProtection'))
        if not init.encrypted:
            if cps:
                bad('clear-track-protected', f'{rep.id} is clear but carries ContentProtection')
            continue
        acc.nontriv((template, mode, drm, rep.id, ver))
        kids = c10.track_kids(stream, rep.id)
        schemes = {}
        for cp in cps:
            schemes.setdefault((cp.get('schemeIdUri') or '').lower(), []).append(cp)
        mp4p = schemes.get('urn:mpeg:dash:mp4protection:2011')
        if not mp4p:
            bad('no-mp4protection', f'{rep.id}: no urn:mpeg:dash:mp4protection:2011 element')
        else:
            dk = mp4p[0].get('{urn:mpeg:cenc:2013}default_KID')
            if dk is None or dk.replace('-', '').lower() != init.kid.hex():
                bad('default_KID', f'{rep.id}: cenc:default_KID={dk!r}, track KID {init.kid.hex()}')
        pr_ids = {'urn:uuid:9a04f079-9840-4286-ab92-e65be0885f95', 'urn:uuid:79f0049a-4098-8642-ab92-e65be0885f95'}
        ck_ids = {'urn:uuid:1077efec-c0b2-4d02-ace3-3c1e52e2fb4b', 'urn:uuid:e2719d58-a985-b3c9-781a-b030af78d30e'}
        ml_id = 'urn:uuid:5e629af5-38da-4063-8977-97ffbd9902d4'
        have = {'playready': any(s in pr_ids for s in schemes), 'clearkey': any(s in ck_ids for s in schemes),
                'marlin': ml_id in schemes}
        # PlayReady 1.0 is announced with the PIFF system id, later versions with the PlayReady one
        if have['playready'] and 'playready' in sel:
            v10 = 'urn:uuid:79f0049a-4098-8642-ab92-e65be0885f95' in schemes
            if v10 != (ver == '1.0'):
                bad('playready-scheme-id', f'{rep.id}: PlayReady version {ver} announced with '
                    f'{[s for s in schemes if s in pr_ids]}')
        for sysname in ('playready', 'clearkey', 'marlin'):
            if have[sysname] != (sysname in sel):
                bad(f'systems|{sysname}', f'{rep.id}: {sysname} ContentProtection present={have[sysname]}, '
                    f'selected={sysname in sel}')
        # embedded payloads vs the init segment of the same request
        iu = rep.init_url()
        init_pssh = {}
        if iu:
            ir = w.get(mpd.split_url(iu))
            acc.count('evaluations')
            acc.count('transitions')
            if ir.status == 200:
                try:
                    root = bmff.parse(ir.body)
                    for b in root.find('moov').children:
                        if b.type == b'pssh':
                            p = bmff.pssh(b)
                            init_pssh[p['system_id']] = (b.raw, p)
                except bmff.Malformed:
                    pass
        for s, els in schemes.items():
            for cp in els:
                ps = cp.find('{urn:mpeg:cenc:2013}pssh')
                pro = cp.find('{urn:microsoft:playready}pro')
                sysname = 'playready' if s in pr_ids else ('clearkey' if s in ck_ids else None)
                if sysname is None:
                    continue
                locs = sel.get(sysname, set())
                any_ps = any(e.find('{urn:mpeg:cenc:2013}pssh') is not None
                             for s2, els2 in schemes.items() for e in els2
                             if (s2 in pr_ids) == (sysname == 'playready') and (s2 in ck_ids) == (sysname == 'clearkey'))
                # PlayReady 1.0 (PIFF) only allows mspr:pro in the manifest
                want_ps = 'cenc' in locs and not (sysname == 'playready' and ver == '1.0')
                if any_ps != want_ps:
                    bad(f'cenc-location|{sysname}', f'{rep.id}: cenc:pssh present={any_ps}, locations {sorted(locs)}, '
                        f'PlayReady version {ver}')
                if sysname == 'playready' and (pro is not None) != ('pro' in locs):
                    bad('pro-location', f'{rep.id}: mspr:pro present={pro is not None}, locations {sorted(locs)}')
                sid = c10.PLAYREADY if sysname == 'playready' else c10.CLEARKEY
                if ps is not None:
                    try:
                        raw = base64.b64decode((ps.text or '').strip())
                        box = bmff.parse(raw).children[0]
                        pp = bmff.pssh(box)
                        if pp['system_id'] != sid:
                            bad(f'pssh-system|{sysname}', f'{rep.id}: embedded pssh has SystemID {pp["system_id"].hex()}')
                        if pp['version'] >= 1 and sorted(pp['kids']) != sorted(kids):
                            bad(f'pssh-kids|{sysname}|' + ('multi-key' if len(kids) > 1 else 'single-key'),
                                f'{rep.id}: embedded pssh lists {[k.hex() for k in pp["kids"]]}, the track\'s key ids are '
                                f'{[k.hex() for k in kids]}')
                        if sid in init_pssh and init_pssh[sid][0] != raw:
                            bad(f'pssh-differs-from-init|{sysname}', f'{rep.id}: cenc:pssh differs from the pssh the init '
                                f'segment of the same request carries')
                    except Exception as e:
                        bad(f'pssh-undecodable|{sysname}', f'{rep.id}: {type(e).__name__}: {e}')
                if pro is not None:
                    try:
                        rawpro = base64.b64decode((pro.text or '').strip())
                        recs = c10.parse_pro(rawpro)
                        xml = [v for t, v in recs if t == 1][0].decode('utf-16-le')
                        if uuid.UUID(bytes=init.kid).bytes_le not in c10.wrm_kids(xml):
                            bad('pro-kid', f'{rep.id}: mspr:pro does not name the track KID')
                        elif len(kids) > 1 and sorted(c10.wrm_kids(xml)) != sorted(uuid.UUID(bytes=k).bytes_le for k in kids):
                            bad('pro-kid|multi-key', f'{rep.id}: mspr:pro names {[k.hex() for k in c10.wrm_kids(xml)]}, the '
                                f'track\'s key ids (GUID order) are {[uuid.UUID(bytes=k).bytes_le.hex() for k in kids]}')
                        if sid in init_pssh and init_pssh[sid][1]['data'] != rawpro:
                            bad('pro-differs-from-init', f'{rep.id}: mspr:pro differs from the PRO inside the init '
                                f'segment pssh of the same request')
                    except Exception as e:
                        bad('pro-undecodable', f'{rep.id}: {type(e).__name__}: {e}')
    return acc


STORED_LA_URLS = [None, 'https://lic.example/rights', 'https://lic.example/r?x=a%2Bb', 'https://lic.example/r?x=a+b',
                  'https://lic.example/r?a=1%26b=2', 'https://lic.example/a%20b/c', 'https://lic.example/r?a=1&b=2']


def stored_la_url(item):
    """The licence URL stored with the stream (Stream.playready_la_url) is what the PlayReady header names - in the
    manifest (mspr:pro, cenc:pssh) and in the pssh of the init segment - byte for byte."""
    url_value, template, mode = item
    w = W.World.shared()
    w.begin_item()
    acc = core.Acc()
    W.set_now(NOW)
    try:
        with w.appctx():
            st = w.models.Stream.get(directory='bbb')
            st.playready_la_url = url_value
            w.models.db.session.commit()
            w.models.db.session.remove()
        q = {'drm': 'playready'}
        if mode == 'live':
            q['depth'] = '30'
        url = crawl.manifest_url(mode, 'bbb', template, q)
        r = w.get(url)
        acc.count('evaluations')
        acc.count('transitions')
        acc.state(('stored-la', url_value, template, mode))
        rec = {'kind': 'stored-la', 'value': url_value, 'template': template, 'mode': mode}
        if r.status != 200:
            acc.outcome(('stored-la', r.status))
            return acc
        doc = mpd.Mpd(r.body, 'http://localhost' + url.split('?')[0])

        def la_of(rawpro):
            try:
                recs = c10.parse_pro(rawpro)
            except Exception as e:
                acc.violation(sig('stored-la-url', 'pro-undecodable'), f'{url}: the PlayReady object does not decode: '
                              f'{type(e).__name__}: {e}', rec)
                return url_value          # reported once; the URL comparison is skipped for this payload
            xml = [v for t, v in recs if t == 1][0].decode('utf-16-le')
            import re as _re
            m = _re.search(r'<LA_URL>(.*?)</LA_URL>', xml, _re.S)
            import html as _html
            return _html.unescape(m.group(1)) if m else None
        st_fix = crawl.Stored.fixture('bbb')

        def differs(got, rep):
            if url_value is not None:
                return got != url_value
            # no licence URL stored and none requested: the built-in test server URL, with its format fields filled in
            # for this track's key id (GUID order, base64)
            kid = st_fix.files[rep.id]['init'].kid if rep.id in st_fix.files else None
            want_kid = base64.b64encode(uuid.UUID(bytes=kid).bytes_le).decode() if kid else ''
            return not (got and got.startswith('https://test.playready.microsoft.com/') and '{' not in got and '}' not in got
                        and f'kid:{want_kid}' in got)
        checked = 0
        for rep in doc.all_reps():
            for cp in list(rep.adp_el.findall(mpd.Q + 'ContentProtection')) + list(rep.el.findall(mpd.Q + 'ContentProtection')):
                pro = cp.find('{urn:microsoft:playready}pro')
                ps = cp.find('{urn:mpeg:cenc:2013}pssh')
                for where, raw in (('mspr:pro', base64.b64decode(pro.text.strip()) if pro is not None and pro.text else None),
                                   ('cenc:pssh', bmff.pssh(bmff.parse(base64.b64decode(ps.text.strip())).children[0])['data']
                                    if ps is not None and ps.text and (cp.get('schemeIdUri') or '').lower().endswith('e65be0885f95') else None)):
                    if raw is None:
                        continue
                    got = la_of(raw)
                    checked += 1
                    if differs(got, rep):
                        acc.violation(sig('stored-la-url', where) + ('' if url_value is not None else '|built-in-url'),
                                      f'{url}: stream licence URL {url_value!r} appears as {got!r} in {where}', rec)
            iu = rep.init_url()
            if iu:
                ir = w.get(mpd.split_url(iu))
                acc.count('evaluations')
                if ir.status == 200:
                    try:
                        moov = bmff.parse(ir.body).find('moov')
                        for b in moov.children:
                            if b.type == b'pssh':
                                pp = bmff.pssh(b)
                                if pp['system_id'] == c10.PLAYREADY:
                                    got = la_of(pp['data'])
                                    checked += 1
                                    if differs(got, rep):
                                        acc.violation(sig('stored-la-url', 'init-pssh') + ('' if url_value is not None else '|built-in-url'),
                                                      f'{mpd.split_url(iu)}: stream licence URL '
                                                      f'{url_value!r} appears as {got!r} in the moov pssh', rec)
                    except bmff.Malformed:
                        pass
        if checked:
            acc.nontriv(('stored-la', url_value, template, mode))
        acc.outcome(('stored-la-checked', checked > 0))
    finally:
        w.reset()
    return acc


def _dispatch(item):
    if item[0] == 'stored-la':
        return stored_la_url(item[1])
    if item[0] == 'clearkey-history':
        return clearkey_history(item[1])
    kind, arg = item
    return {'keys': pure_keys, 'pro': pure_pro, 'clearkey': clearkey_requests, 'manifest': manifest_protection}[kind](arg)


def run(ctx):
    items = [('keys', None), ('clearkey', None)] + [('clearkey-history', op) for op in KEY_OPS]
    n = len(byte_patterns())
    kid_idxs = range(n) if not ctx.quick else list(range(0, 6)) + list(range(6, n, 9))
    for i in kid_idxs:
        items.append(('pro', i))
    sels = c10.selections(ctx.tier)
    use = sels if not ctx.quick else [s for i, s in enumerate(sels) if i < 14 or i % 9 == 0]
    for template, mode in (('hand_made', 'live'), ('hand_made', 'vod'), ('manifest_e', 'live'), ('manifest_n', 'vod'),
                           ('manifest_h', 'live'), ('manifest_i', 'vod'), ('manifest_b', 'vod'), ('manifest_ef', 'live')):
        for drm, sel in use:
            if not drm or drm == 'none':
                continue
            if ctx.quick and template not in ('hand_made', 'manifest_e') and len(sel) > 1 and drm != 'all':
                continue
            items.append(('manifest', (template, mode, drm, sel)))
    # the PlayReady version dimension (scheme id, PIFF mode without cenc:pssh)
    for ver in ('1.0', '2.0', '3.0', '4.0'):
        if ctx.quick and ver in ('2.0', '3.0'):
            continue
        for template, mode in (('hand_made', 'live'), ('hand_made', 'vod'), ('manifest_e', 'live')):
            for drm, sel in use:
                if 'playready' not in sel or (ctx.quick and len(sel) > 1 and drm != 'all'):
                    continue
                items.append(('manifest', (template, mode, drm, sel, 'bbb', ver)))
    # a track with two key ids (synmk_v1_enc)
    for template, mode in (('hand_made', 'live'), ('hand_made', 'vod'), ('manifest_e', 'live')):
        for drm, sel in use:
            if not drm or drm == 'none' or (ctx.quick and len(sel) > 1 and drm != 'all'):
                continue
            items.append(('manifest', (template, mode, drm, sel, 'synmk')))
    for v in STORED_LA_URLS:
        for template, mode in (('hand_made', 'vod'), ('hand_made', 'live'), ('manifest_e', 'vod')):
            items.append(('stored-la', (v, template, mode)))
    ctx.merge_all(ctx.pmap(_dispatch, items, chunksize=2))
    ctx.acc.counts['transitions'] += 0
    ctx.acc.counts['traces'] += ctx.acc.counts['evaluations']
    ctx.extra.update(kid_patterns=n, seeds=len(seeds()), la_urls=LA_URLS, drm_selections=len(use),
                     levels_completed='complete products of the stated alphabets' +
                                      (' (PRO product on a stride of the kid patterns; 1/9 of the drm selections)'
                                       if ctx.quick else ''))


def _replay_stored(record):
    a = stored_la_url((record['value'], record['template'], record['mode']))
    return [(s_, v[0]['what']) for s_, v in a.viol.items()]


def replay(record):
    if record.get('kind') == 'stored-la':
        return _replay_stored(record)
    if record.get('kind') == 'clearkey-history':
        a = clearkey_history(record['history'][0])
        return [(s_, v[0]['what']) for s_, v in a.viol.items()]
    k = record.get('kind')
    if k in ('guid', 'key', 'shortseed'):
        acc = pure_keys(None)
    elif k == 'pro':
        acc = pure_pro(record['kid_idx'])
    elif k == 'clearkey':
        acc = clearkey_requests(None)
    else:
        acc = manifest_protection((record['template'], record['mode'], record['drm'],
                                   {a: set(b) for a, b in record['sel'].items()}, record.get('stream', 'bbb'),
                                   record.get('version')))
    return [(s, v[0]['what']) for s, v in acc.viol.items()]
