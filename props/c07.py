"""C07 - options given to a manifest reach its media requests with the same meaning.

Unit layer: for every DashOption in the registry (discovered at run time) and
every value of a per-type alphabet, from_string(to_string(v)) == v and
to_string returns text. Integration layer: manifest requests with every
1-subset (2-subsets inside groups, thorough) of options set to a non-default
legal value; the initialization/media URLs the served MPD spells out are
re-parsed with the server's own option parser and compared field by field.
"""
from __future__ import annotations

import datetime
import itertools
import json
import urllib.parse

from mc import core, crawl, mpd, world as W

ID = 'C07'
LEVEL = 'model_checking'
PREFORK_WORLD = {}
RULE = ('state = (option, value) for the unit layer and (template, mode, option assignment, media type) for the '
        'integration layer; every element of the stated alphabets is evaluated; non-trivial = a value that differs '
        'from the option default and was carried through to_string/from_string or through a media URL')
ASSUMPTIONS = [
    'three black-box forwarding rules: (i) every name on a media URL belongs to an option whose usage includes that '
    'media type, (ii) every requested option whose usage includes the media type and whose value differs from the '
    'default is present and parses to the requested value (start/depth: to the value the MPD declares), '
    '(iii) fetching the URL does not answer 400',
    'error positions given as a time of day are translated to segment numbers by design; only numeric positions are '
    'required to arrive unchanged',
    'candidate strings that the option parser itself rejects (ValueError) are not legal values and are skipped',
]
NOW = datetime.datetime(2024, 3, 1, 12, 0, 3, 500000, tzinfo=datetime.timezone.utc)

URLS = ['https://lic.example/rights', 'https://lic.example/r?a=1&b=2', 'https://lic.example/r?x=a+b',
        'https://lic.example/r#frag', 'https://lic.example/a%20b', 'https://lic.example/{cfgs}?k={default_kid}',
        'http://h/p?q=a%26b', 'https://lic.example/a b', 'https://lic.example/r?u=http://x/y:z']
INSTANTS = ['2024-03-01T00:00:00Z', '2024-02-29T23:59:59Z', '2024-03-01T01:00:00+01:00', '2024-02-29T14:30:00-09:30',
            '2024-03-01T14:00:00+14:00', '2024-03-01T00:00:00+00:00', '2024-03-01T00:00:00.000001Z',
            '2024-03-01T00:00:00.999999Z', '2024-03-01T00:00:00.5+01:00']
INTS = ['0', '1', '-1', '2', '7', '30', '2147483648', '1000000000000']
FLOATS = ['0', '1.0', '2.0', '3.0', '4.0', '10', '0.5', '-1.5']
LISTS = ['', 'none', 'a', 'a,b', 'saio', 'ping', 'scte35', 'ping,scte35', '12:00:04Z', '12:00:04Z,12:00:08Z']
ERRS = ['', '404=5', '503=5', '404=5,503=7', '410=12:00:04Z', '503=0']
DRMS = ['none', 'all', 'playready', 'marlin', 'clearkey', 'playready,marlin', 'clearkey,marlin,playready',
        'playready-moov', 'playready-cenc', 'playready-pro', 'playready-cenc-pro', 'playready-moov-pro',
        'playready-cenc-moov', 'playready-cenc-moov-pro', 'clearkey-moov', 'clearkey-cenc', 'marlin-cenc',
        'all-moov', 'all-cenc-pro', 'playready-pro,clearkey-moov', 'marlin,playready-moov']
STRINGS = ['', 'none', '0', 'abc', 'a b', 'a&b', 'a=b', 'é', 'x' * 64]


def candidates(opt):
    out = []
    for ch in (opt.cgi_choices or ()):
        v = ch[1] if isinstance(ch, tuple) else ch
        out.append('none' if v is None else str(v))
    name = getattr(opt.from_string, '__name__', '')
    if 'int_or_none' in name:
        out += INTS
    elif 'float_or_none' in name:
        out += FLOATS
    elif 'bool' in name:
        out += ['0', '1', 'true', 'false', 'on']
    elif 'url' in name:
        out += [urllib.parse.quote_plus(u) for u in URLS] + URLS
    elif 'ast_from_string' in name:
        out += INSTANTS
    elif 'drm_selection' in name:
        out += DRMS
    elif 'errors_from_string' in name:
        out += ERRS
    elif 'list' in name:
        out += LISTS
    elif 'datetime' in name:
        out += INSTANTS
    else:
        out += STRINGS + LISTS[:4]
    seen = []
    for s in out:
        if s not in seen:
            seen.append(s)
    return seen


def sig(*p):
    return 'C07|' + '|'.join(str(x) for x in p)


def unit_layer(_):
    from dashlive.server.options.repository import OptionsRepository
    acc = core.Acc()
    n_opts = 0
    for opt in OptionsRepository.get_dash_options():
        n_opts += 1
        for s in candidates(opt):
            acc.count('evaluations')
            rec = {'kind': 'unit', 'option': opt.cgi_name, 'text': s}
            try:
                v = opt.from_string(s)
            except (ValueError, KeyError, AttributeError, TypeError, IndexError):
                acc.outcome(('rejected', opt.cgi_name))
                continue
            acc.state(('unit', opt.cgi_name, s))
            try:
                t = opt.to_string(v)
            except Exception as e:
                acc.violation(sig('unit', 'to_string-raises', opt.cgi_name),
                              f'{opt.cgi_name}: to_string({v!r}) raised {type(e).__name__}: {e}', rec)
                continue
            if v is None or v == [] or v == '':
                # an absent value has no URL text; nothing to round-trip
                acc.outcome(('empty', opt.cgi_name))
                continue
            acc.nontriv(('unit', opt.cgi_name, s))
            # the URL text is what dict_to_cgi_params() writes: f'{name}={value}'
            t = f'{t}'
            try:
                v2 = opt.from_string(t)
            except Exception as e:
                acc.violation(sig('unit', 'roundtrip-raises', opt.cgi_name),
                              f'{opt.cgi_name}: from_string(to_string({v!r}) = {t!r}) raised {type(e).__name__}: {e}', rec)
                continue
            if v2 != v:
                acc.violation(sig('unit', 'roundtrip-differs', opt.cgi_name),
                              f'{opt.cgi_name}: from_string(to_string({v!r}) = {t!r}) = {v2!r}', rec)
    acc.notes['options_discovered'] = n_opts
    return acc


# ---------------------------------------------------------------------------
MEDIA_USE = {'video': 'VIDEO', 'audio': 'AUDIO', 'text': 'TEXT'}

INTEGRATION_VALUES = {
    'start': ['epoch', 'today', '2024-03-01T00:00:00Z', '2024-03-01T01:00:00+01:00', '2024-02-29T14:30:00-09:30'],
    'depth': ['30', '60', 'none'],
    'leeway': ['0', '60', 'none'],
    'drm': ['all', 'playready', 'clearkey', 'marlin', 'playready-moov', 'playready-cenc-pro', 'clearkey-moov,marlin',
            'playready-pro,clearkey-cenc'],
    'playready__la_url': [urllib.parse.quote_plus(u) for u in URLS[:6]],
    'marlin__la_url': [urllib.parse.quote_plus(u) for u in URLS[:3]],
    'clearkey__la_url': [urllib.parse.quote_plus(u) for u in URLS[:3]],
    'playready__version': ['1.0', '2.0', '3.0', '4.0'],
    'playready__piff': ['0', '1'],
    'events': ['ping', 'scte35', 'ping,scte35'],
    'ping__count': ['3'], 'ping__duration': ['100'], 'ping__inband': ['0'], 'ping__interval': ['150'],
    'ping__start': ['40'], 'ping__timescale': ['90000'], 'ping__value': ['7'], 'ping__version': ['1'],
    'scte35__count': ['3'], 'scte35__duration': ['100'], 'scte35__inband': ['0'], 'scte35__interval': ['150'],
    'scte35__start': ['40'], 'scte35__timescale': ['90000'], 'scte35__value': ['9'], 'scte35__version': ['1'],
    'scte35__program_id': ['1000'],
    'bugs': ['saio'],
    'verr': ['404=5', '503=5', '404=5,503=7'], 'aerr': ['404=5', '503=5'], 'terr': ['404=2', '503=2'],
    'failures': ['1', '2', 'none'],
    'vcorrupt': ['12:00:04Z'], 'frames': ['2'],
    'drift': ['10', 'none'], 'time_value': ['abc'], 'mup': ['4', 'none', '-1'],
}
NEEDS = {   # companion options required for a value to have any effect
    'playready__la_url': {'drm': 'playready'}, 'marlin__la_url': {'drm': 'marlin'}, 'clearkey__la_url': {'drm': 'clearkey'},
    'playready__version': {'drm': 'playready'}, 'playready__piff': {'drm': 'playready'}, 'bugs': {'drm': 'all'},
    'failures': {'verr': '503=5', 'aerr': '503=5', 'terr': '503=2'}, 'frames': {'vcorrupt': '12:00:04Z'},
}
for _n in list(INTEGRATION_VALUES):
    if _n.startswith('ping__'):
        NEEDS[_n] = {'events': 'ping'}
    if _n.startswith('scte35__'):
        NEEDS[_n] = {'events': 'scte35'}


# Which media types an option applies to, written down from the option's documented meaning and independent of the usage
# masks in the registry (which are code under test: a mask that loses a bit would otherwise move the expectation with
# it). Options that are not listed (new ones) fall back to their registered mask.
_VAT, _VA = {'video', 'audio', 'text'}, {'video', 'audio'}
APPLIES = {'start': _VAT, 'depth': _VAT, 'leeway': _VAT, 'drm': _VAT, 'bugs': _VAT, 'failures': _VAT,
           'playready__la_url': _VA, 'marlin__la_url': _VA, 'clearkey__la_url': _VA, 'playready__version': _VA,
           'playready__piff': _VA, 'events': _VA,
           'verr': {'video'}, 'aerr': {'audio'}, 'terr': {'text'}, 'vcorrupt': {'video'}, 'frames': {'video'},
           'acodec': {'audio'}}
for _p in ('ping', 'scte35'):
    for _f in ('count', 'duration', 'inband', 'interval', 'start', 'timescale', 'value', 'version'):
        APPLIES[f'{_p}__{_f}'] = _VA
APPLIES['scte35__program_id'] = _VA


def applies(opt, mtype, use):
    if opt.cgi_name in APPLIES:
        return mtype in APPLIES[opt.cgi_name]
    return (opt.usage & use) != 0


# defaults stored with the stream (POST /stream/<pk>/defaults): both ends overlay them on the built-in defaults, so a value
# the request sets explicitly - also when it is the built-in default - has to travel in the URL
SDEF = {'timeShiftBufferDepth': 60, 'leeway': 4, 'ping': {'interval': 150, 'inband': False}, 'playready': {'version': 3.0}}
SDEF_ASSIGN = [{}, {'depth': '1800'}, {'depth': '30'}, {'leeway': '16'}, {'leeway': '60'}, {'depth': '1800', 'leeway': '16'},
               {'events': 'ping'}, {'events': 'ping', 'ping__interval': '1000'}, {'events': 'ping', 'ping__inband': '1'},
               {'events': 'ping', 'ping__interval': '150', 'ping__inband': '0'},
               {'drm': 'playready'}, {'drm': 'playready', 'playready__version': '2.0'},
               {'drm': 'playready', 'playready__version': '3.0'}, {'drm': 'playready', 'playready__version': 'none'}]
SDEF_NAMES = ['depth', 'leeway', 'ping__interval', 'ping__inband', 'playready__version']
# list- and selection-valued defaults, overridden by their empty value, by another value and not at all
SDEF2 = {'eventTypes': ['ping'], 'drmSelection': [['playready', ['pro', 'cenc', 'moov']]], 'bugCompatibility': ['saio']}
SDEF2_ASSIGN = [{}, {'events': 'none'}, {'events': 'scte35'}, {'events': 'ping'}, {'drm': 'none'}, {'drm': 'clearkey'},
                {'bugs': 'none'}, {'events': 'none', 'drm': 'none', 'bugs': 'none'}]
SDEF2_NAMES = ['events', 'drm', 'bugs']


def integration_item(item):
    if len(item) == 4:
        w = W.World.shared()
        w.begin_item()
        with w.appctx():
            sm = w.models.Stream.get(directory='bbb')
            sm.defaults = json.loads(json.dumps(item[3]))
            w.models.db.session.commit()
            w.models.db.session.remove()
        try:
            return integration_item_(item[:3], item[3])
        finally:
            w.reset()
    return integration_item_(item, None)


def integration_item_(item, sdef):
    template, mode, assign = item
    from dashlive.server.options.repository import OptionsRepository
    from dashlive.server.options.types import OptionUsage
    w = W.World.shared()
    w.begin_item()
    acc = core.Acc()
    W.set_now(NOW)
    q = dict(assign)
    url = crawl.manifest_url(mode, 'bbb', template, q)
    r = w.get(url)
    acc.count('evaluations')
    acc.count('transitions')
    acc.outcome(('manifest', r.status))
    rec = {'kind': 'integration', 'template': template, 'mode': mode, 'assign': assign, 'url': url, 'sdef': sdef}
    tag = '|stream-defaults' if sdef else ''
    if r.status != 200:
        return acc
    try:
        doc = mpd.Mpd(r.body, 'http://localhost' + url.split('?')[0])
    except Exception:
        return acc
    acc.count('traces')
    cgi_map = OptionsRepository.get_cgi_map()
    defaults = OptionsRepository.get_default_options()
    if sdef:
        defaults = defaults.clone(**sdef)
    try:
        # what the manifest endpoint accepted: restrictions and unsupported features of the template are applied
        # exactly as RequestHandlerBase.calculate_options() does
        from dashlive.server.manifests import manifest_map
        mft = manifest_map[f'{template}.mpd']
        args = dict(assign)
        for key, allowed in (mft.restrictions or {}).items():
            if key in args and args[key] not in allowed:
                if len(allowed) == 1:
                    args[key] = list(allowed)[0]
                else:
                    del args[key]
        requested = OptionsRepository.convert_cgi_options(args, defaults)
        requested.remove_unsupported_features(mft.features)
    except Exception:
        return acc
    seen_types = set()
    for rep in doc.all_reps():
        mtype = rep.content_type
        if mtype not in MEDIA_USE or mtype in seen_types:
            continue
        seen_types.add(mtype)
        use = OptionUsage[MEDIA_USE[mtype]]
        targets = [('init', rep.init_url())]
        segs = []
        try:
            segs = doc.segments(rep, NOW)
        except Exception:
            pass
        if segs:
            targets.append(('media', segs[-1]['url']))
        elif rep.base_url and mode == 'odvod':
            targets.append(('baseurl', rep.base_url))
        for what, u in targets:
            if not u:
                continue
            parts = urllib.parse.urlsplit(u)
            pairs = urllib.parse.parse_qsl(parts.query, keep_blank_values=True)
            params = dict(pairs)
            acc.state((template, mode, tuple(sorted(assign.items())), mtype, what))
            if not params and template == 'manifest_vod_aiv':
                # this template writes no query string at all: one structural fact instead of one report per option
                if any(cgi_map.get(n) is not None and applies(cgi_map[n], mtype, use) for n in assign):
                    acc.violation(sig('template-forwards-nothing', template),
                                  f'{url}: the {what} URL of {rep.id} carries no option at all ({u}); the request set '
                                  f'{sorted(assign)}', rec)
                continue
            # (i) only options applicable to this media type are forwarded
            for name in params:
                opt = cgi_map.get(name)
                if opt is None:
                    acc.violation(sig('forwarded-unknown-name', mtype), f'{url}: {what} URL of {rep.id} carries '
                                  f'unknown parameter {name!r}: {u}', rec)
                elif not applies(opt, mtype, use):
                    acc.violation(sig('forwarded-not-applicable', name, mtype),
                                  f'{url}: {what} URL of {rep.id} carries {name}={params[name]!r} whose usage '
                                  f'{OptionUsage.to_string_set(opt.usage)} excludes {mtype}: {u}', rec)
            # (ii) every requested applicable option arrives with the same value
            try:
                got = OptionsRepository.convert_cgi_options(params, defaults)
            except Exception as e:
                acc.violation(sig('media-url-unparsable', type(e).__name__, mtype),
                              f'{url}: the server\'s own option parser rejects the {what} URL {u}: {e}', rec)
                got = None
            extra_names = (SDEF2_NAMES if 'eventTypes' in sdef else SDEF_NAMES) if sdef else []
            names = list(assign) + [n for n in extra_names if n not in assign]
            for name in names:
                opt = cgi_map.get(name)
                if opt is None or not applies(opt, mtype, use) or got is None:
                    continue
                if mode != 'live' and name in ('start', 'depth', 'leeway', 'drift', 'time_value'):
                    continue
                src = requested[opt.prefix] if opt.prefix else requested
                dst = got[opt.prefix] if opt.prefix else got
                want = getattr(src, opt.full_name)
                have = getattr(dst, opt.full_name)
                if name == 'start':
                    want = doc.ast
                    if isinstance(have, str):
                        acc.outcome(('start-symbolic-forwarded', have))
                        continue
                if name == 'depth':
                    want = int(doc.tsbd) if doc.tsbd is not None else want
                if name in ('verr', 'aerr', 'terr'):
                    want = [(c, p) for c, p in want if isinstance(p, int)]
                    have = [(c, p) for c, p in have if isinstance(p, int)] if isinstance(have, list) else have
                if name == 'vcorrupt':
                    continue        # times are translated to segment numbers by design
                acc.nontriv((template, mode, tuple(sorted(assign.items())), mtype, what, name))
                if have != want:
                    present = name in params
                    acc.violation(sig('value-' + ('differs' if present else 'missing'), name) + tag,
                                  f'{url}: {what} URL of {rep.id} ' +
                                  (f'carries {name}={params.get(name)!r} which parses to {have!r}' if present else
                                   f'does not carry {name}') + f'; the manifest request meant {want!r}: {u}', rec)
            # (iii) the URL is accepted
            fr = w.get(mpd.split_url(u), headers={'Range': 'bytes=0-99'} if what == 'baseurl' else None)
            acc.count('evaluations')
            acc.count('transitions')
            if fr.status == 400:
                acc.violation(sig('media-url-refused', mtype), f'{url}: {what} URL {mpd.split_url(u)} answered 400', rec)
    return acc


LEGACY = {'hand_made.mpd': {}, 'enc.mpd': {'drm': 'all'}, 'manifest_vod.mpd': {'mode': 'vod'}}


def legacy_item(item):
    """The legacy manifest URLs redirect to the current route: the options of the request travel with the redirect, the
    ones the legacy name implies are only defaults."""
    _, name, prefix, assign = item
    w = W.World.shared()
    w.begin_item()
    acc = core.Acc()
    W.set_now(NOW)
    url = f'{prefix}{name}' + crawl.make_query(assign)
    r = w.get(url)
    acc.count('evaluations')
    acc.count('transitions')
    acc.state(('legacy', url))
    rec = {'kind': 'legacy', 'name': name, 'prefix': prefix, 'assign': assign, 'url': url}
    if r.status not in (301, 302, 303, 307, 308):
        acc.outcome(('legacy', r.status))
        return acc
    loc = dict(r.headers).get('Location', '')
    parts = urllib.parse.urlsplit(loc)
    got = dict(urllib.parse.parse_qsl(parts.query, keep_blank_values=True))
    want = dict(LEGACY[name])
    want.update(assign)
    acc.nontriv(('legacy', url))
    for k in sorted(set(got) | set(want)):
        if k == 'mode':
            continue        # the mode travels in the path
        if got.get(k) != want.get(k):
            acc.violation(sig('legacy-redirect', 'value-' + ('differs' if k in got and k in want else ('missing' if k in want else 'added')), k),
                          f'{url} redirects to {loc}: {k}={got.get(k)!r}, the request and the legacy name mean {want.get(k)!r}', rec)
    mode = want.get('mode', 'vod')
    if f'/dash/{mode}/' not in parts.path:
        acc.violation(sig('legacy-redirect', 'mode'), f'{url} redirects to {loc}, expected mode {mode}', rec)
    return acc


def plan(tier):
    items = []
    for name in LEGACY:
        for prefix in ('/dash/', '/dash/bbb/'):
            for a in ({}, {'drm': 'playready-moov'}, {'drm': 'none'}, {'mode': 'live'}, {'mode': 'live', 'drm': 'clearkey'},
                      {'depth': '30', 'start': 'epoch'}, {'acodec': 'ec-3', 'abr': '0'}):
                items.append(('legacy', name, prefix, a))
    templates = [('hand_made', 'live'), ('hand_made', 'vod'), ('manifest_e', 'live'), ('manifest_n', 'live'),
                 ('hand_made', 'odvod'), ('manifest_a', 'live'), ('manifest_a', 'vod'), ('manifest_b', 'vod'),
                 ('manifest_ef', 'live'), ('manifest_h', 'live'), ('manifest_i', 'live'), ('manifest_n', 'vod'),
                 ('manifest_vod_aiv', 'odvod')]
    singles = []
    for name, vals in INTEGRATION_VALUES.items():
        for v in vals:
            a = dict(NEEDS.get(name, {}))
            if name == 'failures':
                a = {'verr': '503=5', 'aerr': '503=5', 'terr': '503=2'}
            a[name] = v
            singles.append(a)
    for t, m in templates:
        items.append((t, m, {}))
        for a in singles:
            if tier == 'quick' and (t, m) not in (('hand_made', 'live'), ('hand_made', 'vod')) and \
                    not ({'start', 'drm', 'events', 'verr', 'aerr', 'depth'} & set(a)):
                continue
            items.append((t, m, a))
    for t, m in templates[:(2 if tier == 'quick' else 5)]:
        for a in SDEF_ASSIGN:
            items.append((t, m, a, SDEF))
        for a in SDEF2_ASSIGN:
            items.append((t, m, a, SDEF2))
    if tier != 'quick':
        groups = [('start', 'depth', 'leeway'), ('drm', 'playready__version', 'playready__piff', 'playready__la_url', 'bugs'),
                  ('verr', 'aerr', 'terr', 'failures'), ('events', 'ping__interval', 'ping__inband', 'scte35__inband')]
        for g in groups:
            for a, b in itertools.combinations(g, 2):
                for va in INTEGRATION_VALUES[a][:3]:
                    for vb in INTEGRATION_VALUES[b][:3]:
                        asg = dict(NEEDS.get(a, {}))
                        asg.update(NEEDS.get(b, {}))
                        asg[a] = va
                        asg[b] = vb
                        for t, m in templates[:3]:
                            items.append((t, m, asg))
    return items


def tod_item(arg):
    """An error position given as a time of day is translated by the manifest into the media URLs: the meaning must
    survive - the error is produced for the segment that contains that time. (The behavioural oracle of props/c16.py,
    instants on and off segment boundaries.)"""
    from props import c16
    a = c16.tod_item(arg)
    out = core.Acc()
    out.merge(a)
    out.viol = {}
    out.viol_count.clear()
    for s_, lst in a.viol.items():
        for v in lst:
            out.violation('C07|' + s_.split('|', 1)[1], v['what'], dict(v['record'], kind='tod7', arg=list(arg)))
    return out


def corrupt_item(arg):
    """vcorrupt=<segment>&frames=<n> forwarded through the manifest means n at the media end too: at most n video
    samples of the addressed segment differ from the stored ones (none for 0, at least one otherwise), and no sample of
    the neighbouring segments."""
    template, frames = arg
    from mc import bmff
    w = W.World.shared()
    w.begin_item()
    acc = core.Acc()
    W.set_now(NOW)
    q = {'vcorrupt': '3'}
    if frames is not None:
        q['frames'] = frames
    url = crawl.manifest_url('vod', 'bbb', template, q)
    r = w.get(url)
    acc.count('evaluations')
    acc.count('transitions')
    rec = {'kind': 'corrupt', 'template': template, 'frames': frames}
    if r.status != 200:
        acc.outcome(('corrupt-manifest', r.status))
        return acc
    doc = mpd.Mpd(r.body, 'http://localhost' + url.split('?')[0])
    st = crawl.Stored.fixture('bbb')
    limit = 4 if frames is None else int(frames)
    for rep in doc.all_reps():
        if rep.content_type != 'video' or rep.id not in st.files:
            continue
        f = st.files[rep.id]
        segs = {sg['n']: sg for sg in doc.segments(rep, NOW)}
        for n in (2, 3, 4):
            if n not in segs:
                continue
            sr = w.get(mpd.split_url(segs[n]['url']))
            acc.count('evaluations')
            acc.count('transitions')
            if sr.status != 200:
                acc.outcome(('corrupt-segment', sr.status))
                continue
            frag = bmff.Fragment(sr.body, f['init'])
            stored = f['segs'][n - 1]
            want = f['data'][stored['payload_start']:stored['payload_start'] + stored['payload_len']]
            pos = 0
            differing = 0
            for size in frag.sample_sizes:
                if frag.payload[pos:pos + size] != want[pos:pos + size]:
                    differing += 1
                pos += size
            acc.state((template, frames, rep.id, n))
            acc.nontriv((template, frames, rep.id, n))
            lo, hi = (0, 0) if (n != 3 or limit == 0) else (1, limit)
            if not (lo <= differing <= hi):
                acc.violation(sig('corruption-frames', 'addressed' if n == 3 else 'neighbour', f'frames={frames}'),
                              f'{url}: {rep.id} segment {n}: {differing} samples differ from the stored ones, the request '
                              f'means between {lo} and {hi}', rec)
    return acc


def piff_item(arg):
    """playready__piff / playready__version forwarded through the manifest mean the same at the media end: the PIFF
    sample-encryption uuid box is in the fragments of an encrypted track exactly when PIFF is on (the default) or the
    PlayReady version is 1.0."""
    template, mode, piff, ver = arg
    from mc import bmff
    w = W.World.shared()
    w.begin_item()
    acc = core.Acc()
    W.set_now(NOW)
    q = {'drm': 'playready'}
    if piff is not None:
        q['playready__piff'] = piff
    if ver is not None:
        q['playready__version'] = ver
    if mode == 'live':
        q['depth'] = '30'
    url = crawl.manifest_url(mode, 'bbb', template, q)
    r = w.get(url)
    acc.count('evaluations')
    acc.count('transitions')
    rec = {'kind': 'piff', 'arg': list(arg)}
    if r.status != 200:
        acc.outcome(('piff-manifest', r.status))
        return acc
    doc = mpd.Mpd(r.body, 'http://localhost' + url.split('?')[0])
    st = crawl.Stored.fixture('bbb')
    want = (piff in (None, '1')) or ver == '1.0'
    for rep in doc.all_reps():
        if rep.id not in st.files or not st.files[rep.id]['init'].encrypted:
            continue
        segs = doc.segments(rep, NOW)
        for sg in segs[:2]:
            sr = w.get(mpd.split_url(sg['url']))
            acc.count('evaluations')
            acc.count('transitions')
            if sr.status != 200:
                acc.outcome(('piff-segment', sr.status))
                continue
            frag = bmff.Fragment(sr.body, st.files[rep.id]['init'])
            have = frag.piff_box() is not None
            acc.state((template, mode, piff, ver, rep.id, sg['n']))
            acc.nontriv((template, mode, piff, ver, rep.id, sg['n']))
            if have != want:
                acc.violation(sig('piff-box', 'present' if have else 'absent', rep.content_type),
                              f'{url}: {rep.id} segment {sg["n"]}: PIFF sample-encryption box {"present" if have else "absent"}; '
                              f'playready__piff={piff}, playready__version={ver} mean {"present" if want else "absent"}', rec)
    return acc


def _dispatch(item):
    if item[0] == 'piff':
        return piff_item(item[1])
    if item[0] == 'corrupt':
        return corrupt_item(item[1])
    if item[0] == 'int' and item[1][0] == 'legacy':
        return legacy_item(item[1])
    if item[0] == 'tod':
        return tod_item(item[1])
    return unit_layer(None) if item[0] == 'unit' else integration_item(item[1])


def run(ctx):
    items = [('unit', None)] + [('int', it) for it in plan(ctx.tier)]
    for template, mode in (('hand_made', 'vod'), ('hand_made', 'live'), ('manifest_e', 'live')):
        for piff, ver in ((None, None), ('0', None), ('1', None), ('0', '1.0'), ('0', '4.0'), ('1', '2.0'), (None, '3.0')):
            items.append(('piff', (template, mode, piff, ver)))
    for template in ('hand_made', 'manifest_e'):
        for frames in (None, '0', '1', '2', '6'):
            items.append(('corrupt', (template, frames)))
    for addressing in ('number', 'time'):
        for ks in ([12, 13], [16, 19], [20, 23.5]) if ctx.quick else ([8, 9, 10, 11], [12, 13, 14, 15], [16, 19, 20, 23.5], [24, 28, 32, 36]):
            items.append(('tod', ('bbb', addressing, ks, ctx.tier)))
    ctx.merge_all(ctx.pmap(_dispatch, items, chunksize=4))
    ctx.extra.update(options_discovered=ctx.acc.notes.get('options_discovered'),
                     integration_requests=len(items) - 1, integration_values=INTEGRATION_VALUES,
                     levels_completed='unit: every candidate of every registered option; integration: every 1-subset'
                                      + ('' if ctx.quick else ' and 2-subsets inside 4 groups'))


def replay(record):
    if record.get('kind') == 'piff':
        acc = piff_item(tuple(record['arg']))
        return [(s, v[0]['what']) for s, v in acc.viol.items()]
    if record.get('kind') == 'corrupt':
        acc = corrupt_item((record['template'], record['frames']))
        return [(s, v[0]['what']) for s, v in acc.viol.items()]
    if record.get('kind') == 'tod7':
        acc = tod_item(tuple(record['arg'][:2]) + (record['ks'],) + tuple(record['arg'][3:]))
        return [(s, v[0]['what']) for s, v in acc.viol.items()]
    if record.get('kind') == 'legacy':
        acc = legacy_item(('legacy', record['name'], record['prefix'], record['assign']))
        return [(s, v[0]['what']) for s, v in acc.viol.items()]
    if record.get('kind') == 'unit':
        acc = unit_layer(None)
    else:
        item = (record['template'], record['mode'], record['assign'])
        acc = integration_item(item + (record['sdef'],) if record.get('sdef') else item)
    return [(s, v[0]['what']) for s, v in acc.viol.items()]
