"""C10 - init segments carry exactly the requested protection data, nothing else changes.

Exhaustive product: every stored Representation x mode x every DRM selection
expressible through drm=<system>[-<location>...] (every subset of systems x
every location subset, 'all', 'none') x PlayReady version x licence-URL
override x single- and multi-period init routes; each response is diffed box
by box (independent walker) against the stored file.
"""
from __future__ import annotations

import base64
import datetime
import itertools
import re
import struct
import uuid

from mc import bmff, core, crawl, history, world as W

ID = 'C10'
LEVEL = 'model_checking'
PREFORK_WORLD = {}
RULE = ('state = (route, representation, mode, drm selection, playready version, la_url); the whole product is '
        'enumerated; non-trivial = a 200 init response of an encrypted track with a non-empty DRM selection that '
        'was diffed against the stored bytes; history pairs: state = (session a, session b), every ordered pair, each in a process forked for it')
ASSUMPTIONS = [
    'SystemIDs from the DASH-IF registry: PlayReady 9a04f079-9840-4286-ab92-e65be0885f95, W3C ClearKey '
    '1077efec-c0b2-4d02-ace3-3c1e52e2fb4b',
    'stored init segment = the top-level boxes of the stored file before the first moof (whatever trails moov)',
    'only 200 responses are judged (an encrypted track requested without DRM may be refused)',
    'live mode: the response is the stored init segment minus mehd - a mehd that is still there is a violation',
]

PLAYREADY = uuid.UUID('9a04f079-9840-4286-ab92-e65be0885f95').bytes
CLEARKEY = uuid.UUID('1077efec-c0b2-4d02-ace3-3c1e52e2fb4b').bytes
NOW = datetime.datetime(2024, 3, 1, 12, 0, 3, 500000, tzinfo=datetime.timezone.utc)
LOCS = ('cenc', 'moov', 'pro')
SYSTEMS = ('clearkey', 'marlin', 'playready')


def loc_choices():
    out = [None]
    for n in (1, 2, 3):
        for c in itertools.combinations(LOCS, n):
            out.append(c)
    return out


def selections(tier):
    """-> list of (drm string, {system: set(locations)})"""
    out = [('none', {}), (None, {})]
    allset = set(LOCS)
    out.append(('all', {s: allset for s in SYSTEMS}))
    for c in loc_choices()[1:]:
        out.append(('all-' + '-'.join(c), {s: set(c) for s in SYSTEMS}))
    per = [[('absent', None)] + [(c, set(c) if c else allset) for c in loc_choices()] for _ in SYSTEMS]
    for combo in itertools.product(*per):
        parts = []
        sel = {}
        for sysname, (c, locs) in zip(SYSTEMS, combo):
            if c == 'absent':
                continue
            parts.append(sysname if c is None else sysname + '-' + '-'.join(c))
            sel[sysname] = locs
        if not parts:
            continue
        out.append((','.join(parts), sel))
        if tier != 'quick' and len(parts) > 1:
            out.append((','.join(reversed(parts)), sel))
    return out


def files():
    out = []
    for stream in ('bbb', 'synenc', 'tears', 'synoff', 'synmk'):
        st = crawl.Stored.fixture(stream)
        for fname, f in st.files.items():
            out.append((stream, fname))
    return out


EXT = {'video': 'm4v', 'audio': 'm4a', 'text': 'mp4'}


def stored_init_boxes(f):
    root = bmff.parse(f['data'])
    out = []
    for b in root.children:
        if b.type == b'moof':
            break
        out.append(b)
    return out


_track_kids: dict = {}


def track_kids(stream, fname):
    """Key ids of the track: tenc default KID + every KID a version 1 pssh box inside a movie fragment names."""
    key = (stream, fname)
    if key not in _track_kids:
        f = crawl.Stored.fixture(stream).files[fname]
        kids = []
        if f['init'].kid:
            kids.append(f['init'].kid)
        for b in bmff.parse(f['data']).children:
            if b.type != b'moof':
                continue
            for c in b.children:
                if c.type == b'pssh':
                    try:
                        for k in bmff.pssh(c)['kids']:
                            if k not in kids:
                                kids.append(k)
                    except bmff.Malformed:
                        pass
        _track_kids[key] = kids
    return _track_kids[key]


def parse_pro(data: bytes):
    """PlayReady Object -> list of (type, bytes)"""
    if len(data) < 6:
        raise ValueError('PRO too short')
    length, count = struct.unpack('<IH', data[:6])
    if length != len(data):
        raise ValueError(f'PRO length field {length} != {len(data)}')
    pos = 6
    recs = []
    for _ in range(count):
        t, n = struct.unpack('<HH', data[pos:pos + 4])
        pos += 4
        recs.append((t, data[pos:pos + n]))
        pos += n
    if pos != len(data):
        raise ValueError('PRO records do not fill the object')
    return recs


def wrm_kids(xml_text: str):
    kids = []
    for m in re.finditer(r'<KID>([^<]+)</KID>', xml_text):
        kids.append(base64.b64decode(m.group(1)))
    for m in re.finditer(r'<KID[^>]*\bVALUE="([^"]+)"', xml_text):
        kids.append(base64.b64decode(m.group(1)))
    return kids


def check_init(acc, rec, stream, fname, mode, sel, la_url, body, stored_la=None):
    st = crawl.Stored.fixture(stream)
    f = st.files[fname]
    init = f['init']

    def bad(clause, text):
        acc.violation(f'C10|{clause}', f'{rec["url"]}: {text}', rec)
    try:
        root = bmff.parse(body)
    except bmff.Malformed as e:
        bad('malformed', str(e))
        return
    sboxes = stored_init_boxes(f)
    rboxes = root.children
    if [b.type for b in rboxes] != [b.type for b in sboxes[:len(rboxes)]] or not any(b.type == b'moov' for b in rboxes):
        bad('top-level-boxes', f'response has {[b.name for b in rboxes]}, stored file starts {[b.name for b in sboxes]}')
        return
    for rb, sb in zip(rboxes, sboxes):
        if rb.type != b'moov' and rb.raw != sb.raw:
            bad(f'box-changed|{rb.name}', f'top-level {rb.name} differs from the stored bytes')
    rmoov = root.find('moov')
    smoov = [b for b in sboxes if b.type == b'moov'][0]
    rk = list(rmoov.children)
    sk = list(smoov.children)
    extra = rk[len(sk):]
    for rb, sb in zip(rk, sk):
        if rb.type != sb.type:
            bad('moov-children', f'moov children {[b.name for b in rk]} vs stored {[b.name for b in sk]}')
            return
        if rb.type == b'mvex':
            rch = [c for c in rb.children]
            sch = [c for c in sb.children]
            s_wo = [c.raw for c in sch if c.type != b'mehd']
            if mode == 'live':
                if [c.raw for c in rch] == s_wo:
                    acc.outcome('mehd-removed' if len(s_wo) != len(sch) else 'no-mehd-stored')
                elif [c.raw for c in rch] == [c.raw for c in sch]:
                    bad('mehd-kept-in-live', f'live mode: mvex still holds {[c.name for c in rch]} (mehd must be removed)')
                else:
                    bad('mvex-changed', f'mvex children {[c.name for c in rch]} vs stored {[c.name for c in sch]}')
            elif [c.raw for c in rch] != [c.raw for c in sch]:
                bad('mvex-changed', f'mvex children {[c.name for c in rch]} vs stored {[c.name for c in sch]}')
        elif rb.raw != sb.raw:
            bad(f'box-changed|moov.{rb.name}', f'moov child {rb.name} differs from the stored bytes')
    if len(rk) < len(sk):
        bad('moov-children', f'moov lost children: {[b.name for b in rk]} vs stored {[b.name for b in sk]}')
        return
    want = []
    if init.encrypted:
        if 'playready' in sel and 'moov' in sel['playready']:
            want.append(PLAYREADY)
        if 'clearkey' in sel and 'moov' in sel['clearkey']:
            want.append(CLEARKEY)
    got = []
    for b in extra:
        if b.type != b'pssh':
            bad('appended-non-pssh', f'unexpected box {b.name} appended to moov')
            continue
        try:
            p = bmff.pssh(b)
        except bmff.Malformed as e:
            bad('pssh-malformed', str(e))
            continue
        got.append(p['system_id'])
        kids = track_kids(stream, fname)
        shape = 'multi-key' if len(kids) > 1 else 'single-key'
        if p['system_id'] == PLAYREADY:
            # "bearing ... the key ids ... for the track's KID": a key id list (version 1 box) names exactly the
            # track's key ids, as the bytes tenc carries; a version 0 box has no list
            if p['version'] >= 1 and sorted(p['kids']) != sorted(kids):
                bad(f'playready-pssh-kids|{shape}', f'PlayReady pssh v{p["version"]} lists {[k.hex() for k in p["kids"]]}, the track\'s '
                    f'key ids are {[k.hex() for k in kids]}')
            try:
                recs = parse_pro(p['data'])
                hdrs = [v for t, v in recs if t == 1]
                if len(hdrs) != 1:
                    bad('pro-records', f'{len(hdrs)} WRMHEADER records')
                else:
                    xml = hdrs[0].decode('utf-16-le')
                    kid_le = uuid.UUID(bytes=init.kid).bytes_le
                    if kid_le not in wrm_kids(xml):
                        bad('playready-kid', f'WRMHEADER KIDs {[k.hex() for k in wrm_kids(xml)]} do not name the '
                            f'track KID {init.kid.hex()} in GUID order')
                    elif len(kids) > 1 and sorted(wrm_kids(xml)) != sorted(uuid.UUID(bytes=k).bytes_le for k in kids):
                        bad('playready-kid|multi-key', f'WRMHEADER KIDs {[k.hex() for k in wrm_kids(xml)]} are not the GUID '
                            f'forms of the track\'s key ids {[k.hex() for k in kids]}')
                    if la_url is not None and la_url.replace('&', '&amp;') not in xml and la_url not in xml:
                        bad('playready-la-url', f'LA_URL override {la_url!r} not in WRMHEADER')
                    elif la_url is None and stored_la and '{' not in stored_la and stored_la.replace('&', '&amp;') not in xml:
                        # no override: the licence URL stored with the stream this file belongs to
                        bad('playready-la-url|stored', f'the licence URL of stream {stream} ({stored_la!r}) is not in the WRMHEADER')
            except Exception as e:
                bad('pro-unparsable', f'{type(e).__name__}: {e}')
        elif p['system_id'] == CLEARKEY:
            if p['version'] == 1 and init.kid in p['kids'] and sorted(p['kids']) != sorted(kids):
                bad(f'clearkey-kids|{shape}', f'ClearKey pssh lists {[k.hex() for k in p["kids"]]}, the track\'s key ids are '
                    f'{[k.hex() for k in kids]}')
            if p['version'] != 1 or init.kid not in p['kids']:
                bad('clearkey-kids', f'ClearKey pssh v{p["version"]} lists {[k.hex() for k in p["kids"]]}, track KID '
                    f'{init.kid.hex() if init.kid else None}')
        else:
            bad('pssh-system', f'pssh with unexpected SystemID {p["system_id"].hex()}')
    if sorted(got) != sorted(want):
        def nm(x):
            return {PLAYREADY: 'playready', CLEARKEY: 'clearkey'}.get(x, x.hex())
        bad('pssh-set|' + ('encrypted' if init.encrypted else 'clear'),
            f'appended pssh systems {[nm(x) for x in got]}, selection {sel} requires {[nm(x) for x in want]}')
    if init.encrypted and sel:
        acc.nontriv((rec['url'],))


def execute(item):
    stream, fname, tier, sels = item
    w = W.World.shared()
    w.begin_item()
    acc = core.Acc()
    W.set_now(NOW)
    st = crawl.Stored.fixture(stream)
    f = st.files[fname]
    kind = 'video' if '_v' in fname else ('audio' if '_a' in fname else 'text')
    ext = EXT[kind]
    routes = [('dash', f'/dash/{{mode}}/{stream}/{fname}/init.{ext}')]
    with w.appctx():
        for mname in ('testmps', 'encmps'):
            mps = w.models.MultiPeriodStream.get(name=mname)
            for p in (mps.periods if mps is not None else []):
                if p.stream.directory == stream:
                    routes.append(('mps', f'/mps/{{mode}}/{mname}/{p.pk}/{fname}/init.{ext}'))
        stored_la = w.models.Stream.get(directory=stream).playready_la_url
        w.models.db.session.remove()
    versions = [None] if tier == 'quick' else [None, '1.0', '2.0', '3.0', '4.0']
    if tier == 'quick' and fname in ('bbb_v7_enc', 'synenc_a1_enc', 'synmk_v1_enc'):
        versions = [None, '1.0', '4.0']       # 1.0 (PIFF) is the version that changes which hooks are installed
    la_urls = [None] if tier == 'quick' and fname != 'bbb_v7_enc' else [None, 'https://lic.example/pr?a=1&b=2']
    for rname, tmpl in routes:
        for mode in ('live', 'vod'):
            for drm, sel in sels:
                for ver in versions:
                    for la in la_urls:
                        if (ver or la) and 'playready' not in sel:
                            continue
                        if rname == 'mps' and (ver or la):
                            continue
                        q = {}
                        if drm is not None:
                            q['drm'] = drm
                        if ver:
                            q['playready__version'] = ver
                        if la:
                            q['playready__la_url'] = la
                        url = tmpl.format(mode=mode) + crawl.make_query(q)
                        r = w.get(url)
                        acc.count('evaluations')
                        acc.count('transitions')
                        acc.state((url,))
                        acc.outcome((rname, f['init'].encrypted, bool(sel), r.status))
                        if r.status >= 500 or r.exc:
                            acc.violation(f'C10|5xx|{W.crash_signature(r.exc)}', f'{url}: status {r.status}',
                                          {'url': url, 'stream': stream, 'fname': fname, 'mode': mode,
                                           'sel': {k: sorted(v) for k, v in sel.items()}, 'la': la})
                            continue
                        if r.status != 200:
                            continue
                        acc.count('traces')
                        rec = {'url': url, 'stream': stream, 'fname': fname, 'mode': mode,
                               'sel': {k: sorted(v) for k, v in sel.items()}, 'la': la, 'stored_la': stored_la}
                        check_init(acc, rec, stream, fname, mode, sel, la, r.body, stored_la=stored_la)
    return acc


def history_alphabet(tier):
    """Init-segment requests for the differential history oracle (mc/history.py)."""
    out = []
    now = crawl.iso(NOW)
    files_ = [('bbb', 'bbb_v7_enc', 'm4v'), ('synmk', 'synmk_v1_enc', 'm4v'), ('synmk', 'synmk_a1_enc', 'm4a'), ('bbb', 'bbb_v7', 'm4v')]
    drms = [None, 'all', 'playready', 'clearkey', 'playready-moov', 'clearkey-cenc', 'marlin']
    if tier == 'quick':
        drms = [None, 'all', 'playready', 'clearkey-cenc']
    if tier != 'quick':
        files_ += [('synenc', 'synenc_a1_enc', 'm4a'), ('bbb', 'bbb_a1_enc', 'm4a')]
    for stream, fname, ext in files_:
        for mode in ('vod', 'live'):
            for drm in drms:
                q = {'drm': drm} if drm else {}
                out.append((f'{fname}|{mode}|drm={drm}', f'/dash/{mode}/{stream}/{fname}/init.{ext}' + crawl.make_query(q), now, True))
            if fname == 'bbb_v7_enc':
                for ver in ('1.0', '4.0'):
                    out.append((f'{fname}|{mode}|drm=playready,version={ver}', f'/dash/{mode}/{stream}/{fname}/init.{ext}' +
                                crawl.make_query({'drm': 'playready', 'playready__version': ver}), now, True))
    return out


def run(ctx):
    # histories first: these workers only fork, so that every pair starts from a process that has served nothing
    alpha = history_alphabet(ctx.tier)
    ctx.merge_all(ctx.pmap(history.pair_item, [('C10', a, alpha) for a in range(len(alpha))]))
    ctx.extra.update(history_alphabet=[a[0] for a in alpha], history_pairs=len(alpha) * (len(alpha) - 1))
    sels = selections(ctx.tier)
    items = []
    for stream, fname in files():
        enc = crawl.Stored.fixture(stream).files[fname]['init'].encrypted
        use = sels if enc else [s for i, s in enumerate(sels) if i < 12 or i % 37 == 0]
        if ctx.quick and enc and fname not in ('bbb_v7_enc', 'synenc_a1_enc', 'synmk_v1_enc'):
            # quick: the full selection space on one video and one audio file, a rotated 1/6 of it elsewhere
            rot = core.digest(fname)[0] % 6
            use = [s for i, s in enumerate(sels) if i < 12 or i % 6 == rot]
        for ch in core.chunks(use, 120):
            items.append((stream, fname, ctx.tier, ch))
    ctx.merge_all(ctx.pmap(execute, items))
    ctx.extra.update(drm_selections=len(sels), files=len(files()),
                     levels_completed=('every expressible drm selection x {bbb_v7_enc, synenc_a1_enc, synmk_v1_enc (two key ids)} (1/6 of them, '
                                       'rotated per file, on the other encrypted files) x {live,vod} x {dash, mps}'
                                       if ctx.quick else
                                       'every expressible drm selection x every encrypted file x {live,vod} x '
                                       '{dash, mps} init routes x playready version x la_url'))


def replay(record):
    if record.get('kind') == 'history-pair':
        a = history.run_forked(history.pair_item, ('C10', 0, [tuple(record['a']), tuple(record['b'])]))
        return [(s, v[0]['what']) for s, v in a.viol.items()]
    w = W.World.shared()
    acc = core.Acc()
    W.set_now(NOW)
    r = w.get(record['url'])
    if r.status >= 500 or r.exc:
        return [(f'C10|5xx|{W.crash_signature(r.exc)}', f'status {r.status}')]
    if r.status == 200:
        check_init(acc, record, record['stream'], record['fname'], record['mode'],
                   {k: set(v) for k, v in record['sel'].items()}, record.get('la'), r.body, stored_la=record.get('stored_la'))
    return [(s, v[0]['what']) for s, v in acc.viol.items()]
