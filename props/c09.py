"""C09 - successive manifests and MPD patches evolve consistently.

Explicit-state search over clock histories: a state is (configuration, instant);
operations advance the clock by one element of a delta alphabet. Every reachable
instant up to the depth bound is visited (de-duplicated: advances commute), the
manifest served there is read independently, and the pairwise relation of the
statement is evaluated on every edge (T1 --delta--> T2); with patches enabled
the PatchLocation of T1 is fetched at T2 and applied with an independent
minimal XML-patch implementation.
"""
from __future__ import annotations

import datetime
import html

from mc import core, crawl, mpd, world as W, xmlpatch
from props import c01

ID = 'C09'
LEVEL = 'model_checking'
PREFORK_WORLD = {}
RULE = ('state = (configuration, instant) reached by a history of clock advances; transition = one advance (edge), '
        'on which both manifests (and the patch) are compared; non-trivial = an edge whose two manifests share at '
        'least one listed segment or whose patch answered 200 and was applied')
ASSUMPTIONS = [
    'segment agreement is demanded only while availabilityStartTime is unchanged between the two documents',
    'a patch request that answers non-200 is not judged here (C16 does); replacement elements are compared by local '
    'name and attribute values, their XML namespace is not compared',
    'advances commute, so instants are de-duplicated by their value; every edge into every distinct instant is checked',
    'patch equivalence is demanded only while availabilityStartTime is unchanged (a patch cannot move it; a symbolic '
    'start that steps forward at a day boundary makes the client reload)',
]
UTC = datetime.timezone.utc
TD = datetime.timedelta


def deltas(cfg, tier):
    mup = cfg['mup']
    loop = cfg['loop']
    seg = cfg['seg']
    out = [0.001, 0.999, 1.0, mup - 0.001, mup, mup + 0.001, 2 * mup, seg, loop - 0.001, loop + 0.001]
    if tier != 'quick':
        out += [cfg.get('ttl', 30) - 1, cfg.get('ttl', 30) + 1, 3 * mup + 0.5]
    return [d for d in sorted(set(out)) if d > 0]


CONFIGS = [
    # (stream, template, opts)
    ('bbb', 'hand_made', {'start': 'explicit', 'depth': '30', 'timeline': '1', 'patch': '1'}),
    ('bbb', 'hand_made', {'start': 'explicit', 'depth': '30', 'timeline': '1', 'patch': '1', 'mup': '4'}),
    ('bbb', 'hand_made', {'start': 'epoch', 'depth': '30', 'timeline': '1', 'patch': '1'}),
    ('bbb', 'hand_made', {'start': 'today', 'depth': '30', 'timeline': '1'}),
    ('bbb', 'manifest_a', {'start': 'explicit', 'depth': '30'}),
    ('bbb', 'manifest_n', {'start': 'explicit', 'depth': '60', 'mup': '30'}),
    ('synirr', 'hand_made', {'start': 'explicit', 'depth': '30', 'timeline': '1', 'patch': '1'}),
    ('synwild', 'hand_made', {'start': 'explicit', 'depth': '30', 'timeline': '1', 'patch': '1', 'mup': '7'}),
    ('tears', 'hand_made', {'start': 'month', 'depth': '30', 'timeline': '1', 'patch': '1'}),
    # the start of the year: sessions that cross the end of a day and the end of a month
    ('bbb', 'hand_made', {'start': 'year', 'depth': '30', 'timeline': '1'}),
    # track ids other than 1 and 2: AdaptationSet ids and track ids are different things
    ('syntrk', 'hand_made', {'start': 'explicit', 'depth': '30', 'timeline': '1', 'patch': '1'}),
    # a start written with a UTC offset (the same instant as the explicit one)
    ('bbb', 'hand_made', {'start': 'explicit+01:00', 'depth': '30', 'timeline': '1', 'patch': '1'}),
    # options that come from the defaults stored with the stream, not from the query
    ('synnot', 'hand_made', {'start': 'explicit', 'timeline': '1', 'patch': '1',
                             '_stream_defaults': {'minimumUpdatePeriod': 6, 'timeShiftBufferDepth': 20}}),
]
STARTS = {
    'explicit': [c01.AST0 + TD(seconds=45), c01.AST0 + TD(seconds=3 * 40 + 7.5), c01.AST0 + TD(seconds=97391 - 20)],
    'explicit+01:00': [c01.AST0 + TD(seconds=45), c01.AST0 + TD(seconds=3 * 40 + 7.5)],
    'epoch': [c01.NOON + TD(seconds=3.5)],
    'today': [datetime.datetime(2024, 3, 1, 23, 59, 30, tzinfo=UTC), datetime.datetime(2024, 3, 2, 0, 0, 30, tzinfo=UTC)],
    'month': [datetime.datetime(2024, 3, 1, 23, 59, 50, tzinfo=UTC), c01.NOON],
    'year': [datetime.datetime(2024, 3, 31, 23, 59, 50, tzinfo=UTC), datetime.datetime(2024, 3, 15, 23, 59, 50, tzinfo=UTC)],
}


def timelines(doc):
    out = {}
    for rep in doc.all_reps():
        if rep.template is not None and rep.template.timeline is not None:
            key = (rep.period.id, rep.adp_el.get('id'), rep.id)
            out[key] = rep.template.timeline
    return out


def adp_timelines(root):
    """(Period id, AdaptationSet id) -> list of (t,d,r) raw S entries, by local names (works on patched docs)."""
    out = {}
    for p in root:
        if xmlpatch.lname(p) != 'Period':
            continue
        for a in p:
            if xmlpatch.lname(a) != 'AdaptationSet':
                continue
            for st in a.iter():
                if xmlpatch.lname(st) == 'SegmentTimeline':
                    out[(p.get('id'), a.get('id'))] = [(s.get('t'), s.get('d'), s.get('r')) for s in st
                                                       if xmlpatch.lname(s) == 'S']
    return out


def patch_location(root):
    for c in root:
        if xmlpatch.lname(c) == 'PatchLocation':
            return (c.get('ttl'), (c.text or '').strip())
    return None


def explore(item):
    ci, si, tier, depth = item
    stream, template, opts = CONFIGS[ci]
    w = W.World.shared()
    w.begin_item()
    acc = core.Acc()
    q = dict(opts)
    stream_defaults = q.pop('_stream_defaults', None)
    if stream_defaults:
        with w.appctx():
            sm = w.models.Stream.get(directory=stream)
            sm.defaults = dict(stream_defaults)
            w.models.db.session.commit()
            w.models.db.session.remove()
        opts = dict(opts, depth=str(stream_defaults.get('timeShiftBufferDepth', 30)),
                    mup=str(stream_defaults.get('minimumUpdatePeriod', 0)))
    q['start'] = c01.start_value(q['start'])
    url = crawl.manifest_url('live', stream, template, q)
    st = crawl.Stored.fixture(stream)
    _, loop = st.seg_starts(c01.STREAM_FILES[stream]['ref'])
    starts, _ = st.seg_starts(c01.STREAM_FILES[stream]['ref'])
    seg = float(starts[1] - starts[0]) if len(starts) > 1 else 4.0
    mup = int(opts['mup']) if opts.get('mup') and int(opts['mup']) > 0 else round(2 * seg)
    cfg = {'mup': mup, 'loop': float(loop), 'seg': seg, 'ttl': int(opts.get('depth', 30))}
    ds = deltas(cfg, tier)
    t0 = STARTS[opts['start']][si]
    docs = {}

    def fetch(T):
        if T in docs:
            return docs[T]
        W.set_now(T)
        r = w.get(url)
        acc.count('evaluations')
        acc.count('manifests')
        d = None
        if r.status == 200:
            try:
                d = mpd.Mpd(r.body, 'http://localhost' + url.split('?')[0])
            except Exception:
                d = None
        acc.outcome(('manifest', r.status))
        docs[T] = d
        return d

    frontier = [t0]
    seen = {t0}
    for level in range(depth):
        nxt = []
        for T1 in frontier:
            d1 = fetch(T1)
            for dl in ds:
                T2 = T1 + TD(microseconds=round(dl * 10 ** 6))
                d2 = fetch(T2)
                acc.count('transitions')
                acc.state((ci, T2.isoformat()))
                if d1 is not None and d2 is not None:
                    check_edge(w, acc, ci, url, T1, T2, d1, d2, dl)
                if T2 not in seen:
                    seen.add(T2)
                    nxt.append(T2)
        frontier = nxt
    acc.count('traces', len(seen))
    acc.notes.setdefault('instants', {})[f'{ci}/{si}'] = len(seen)
    if stream_defaults:
        w.reset()
    return acc


def check_edge(w, acc, ci, url, T1, T2, d1, d2, dl):
    stream, template, opts = CONFIGS[ci]
    rec = {'ci': ci, 'url': url, 'T1': T1.isoformat(), 'T2': T2.isoformat()}
    tag = f'{template}|start-{opts["start"]}'

    def bad(clause, text):
        acc.violation(f'C09|{clause}|{tag}', f'{url} T1={T1.isoformat()} T2={T2.isoformat()} (+{dl}s): {text}', rec)
    if d2.publish_time < d1.publish_time:
        bad('publishTime-backwards', f'publishTime {d1.publish_time.isoformat()} -> {d2.publish_time.isoformat()}')
    if d2.ast < d1.ast:
        bad('availabilityStartTime-backwards', f'{d1.ast.isoformat()} -> {d2.ast.isoformat()}')
    elif d2.ast != d1.ast:
        # one presentation keeps its availabilityStartTime: an explicit or epoch start always, the start of the year /
        # month while the session stays inside that year / month (away from its first two days, where the stream is
        # deliberately made at least a day old)
        kind = opts['start']
        fixed = kind.startswith('explicit') or kind == 'epoch' or \
            (kind == 'year' and T1.year == T2.year and T1.month >= 2) or \
            (kind == 'month' and (T1.year, T1.month) == (T2.year, T2.month) and T1.day >= 3)
        if fixed:
            bad('availabilityStartTime-changed', f'{d1.ast.isoformat()} -> {d2.ast.isoformat()}')
    tl1, tl2 = timelines(d1), timelines(d2)
    shared = 0
    if d1.ast == d2.ast:
        for key, a in tl1.items():
            b = tl2.get(key)
            if not a or not b:
                continue
            da = dict(a)
            for t, d in b:
                if t in da:
                    shared += 1
                    if da[t] != d:
                        bad('segment-duration-changed', f'{key[2]}: segment t={t} had d={da[t]} and now d={d}')
                        break
            if b[0][0] < a[0][0]:
                bad('window-start-backwards', f'{key[2]}: first listed t {a[0][0]} -> {b[0][0]}')
            if b[-1][0] < a[-1][0]:
                bad('window-end-backwards', f'{key[2]}: last listed t {a[-1][0]} -> {b[-1][0]}')
            # segments present in both windows' overlap must not be re-cut
            lo = max(a[0][0], b[0][0])
            hi = min(a[-1][0], b[-1][0])
            sa = [x for x in a if lo <= x[0] <= hi]
            sb = [x for x in b if lo <= x[0] <= hi]
            if sa != sb:
                bad('overlap-differs', f'{key[2]}: entries within the common window differ: {sa[:3]}... vs {sb[:3]}...')
    if shared:
        acc.nontriv((ci, T1.isoformat(), T2.isoformat()))
    # patches
    if opts.get('patch') == '1' and d1.patch_location and d1.ast == d2.ast:
        ploc = mpd.split_url(html.unescape(d1.patch_location))
        W.set_now(T2)
        pr = w.get(ploc)
        acc.count('evaluations')
        acc.outcome(('patch', pr.status))
        if pr.status != 200:
            return
        try:
            proot = mpd.strict_parse(pr.body)
        except Exception as e:
            bad('patch-not-well-formed', str(e)[:100])
            return
        acc.nontriv((ci, 'patch', T1.isoformat(), T2.isoformat()))
        if proot.get('mpdId') != d1.id:
            bad('patch-mpdId', f'Patch@mpdId={proot.get("mpdId")!r}, MPD@id={d1.id!r}')
        try:
            opt = mpd.dt(proot.get('originalPublishTime'))
        except Exception:
            opt = None
        if opt != d1.publish_time:
            bad('patch-originalPublishTime', f'{proot.get("originalPublishTime")!r} but the T1 manifest was published '
                f'{d1.publish_time.isoformat()}')
        try:
            patched, n = xmlpatch.apply(d1.root, proot)
        except xmlpatch.PatchError as e:
            bad('patch-does-not-apply', str(e)[:160])
            return
        def same_instant(a, b):
            if a == b:
                return True
            try:
                return mpd.dt(a) == mpd.dt(b)       # the same instant may be written in another UTC offset
            except Exception:
                return False
        if not same_instant(patched.get('publishTime'), d2.root.get('publishTime')):
            bad('patched-publishTime', f'patched document has publishTime {patched.get("publishTime")!r}, the manifest '
                f'served at T2 {d2.root.get("publishTime")!r}')
        if patch_location(patched) != patch_location(d2.root):
            bad('patched-PatchLocation', f'{patch_location(patched)} vs {patch_location(d2.root)}')
        pa, pb = adp_timelines(patched), adp_timelines(d2.root)
        if pa != pb:
            diff = [k for k in set(pa) | set(pb) if pa.get(k) != pb.get(k)]
            bad('patched-timelines', f'SegmentTimeline of {diff[:2]} differs from the full manifest at T2: '
                f'{str(pa.get(diff[0]))[:80]} vs {str(pb.get(diff[0]))[:80]}')


def run(ctx):
    depth = 3 if ctx.quick else 4
    items = []
    for ci, (stream, template, opts) in enumerate(CONFIGS):
        for si in range(len(STARTS[opts['start']])):
            items.append((ci, si, ctx.tier, depth))
    ctx.merge_all(ctx.pmap(explore, items))
    ctx.extra.update(configs=[list(c[:2]) + [c[2]] for c in CONFIGS], depth=depth,
                     instants_per_start=ctx.acc.notes.get('instants'),
                     delta_alphabet='1 ms, 999 ms, 1 s, mup-1ms, mup, mup+1ms, 2mup, one segment, loop-1ms, loop+1ms'
                                    + ('' if ctx.quick else ', ttl-1s, ttl+1s, 3mup+0.5s'),
                     levels_completed=f'all clock histories of <= {depth} advances from every start instant')


def replay(record):
    w = W.World.shared()
    acc = core.Acc()
    ci = record['ci']
    url = record['url']
    T1 = datetime.datetime.fromisoformat(record['T1'])
    T2 = datetime.datetime.fromisoformat(record['T2'])
    docs = []
    for T in (T1, T2):
        W.set_now(T)
        r = w.get(url)
        docs.append(mpd.Mpd(r.body, 'http://localhost' + url.split('?')[0]) if r.status == 200 else None)
    if all(docs):
        check_edge(w, acc, ci, url, T1, T2, docs[0], docs[1], (T2 - T1).total_seconds())
    return [(s, v[0]['what']) for s, v in acc.viol.items()]
