"""C19 - ISO-8601 time text is faithful to the value it encodes.

Bounded-exhaustive enumeration (no sampling) of
  durations   : every microsecond fraction of a second (thorough: all 10^6; quick: every fraction whose
                millisecond residue is a rounding boundary, and all fractions >= .999) x whole parts x
                three input forms (float, str, timedelta), plus whole seconds 2^k +- 1 up to 10 years;
  date-times  : UTC offsets every 15 min in [-12:00,+14:00] x dates x seconds x microseconds;
  tick maths  : timescale alphabet x timecode alphabet, both directions.
Oracle: own xs:duration / xs:dateTime parsers (mc/iso8601.py) and Fraction arithmetic.
"""
from __future__ import annotations

import datetime
from fractions import Fraction

from mc import core, iso8601

ID = 'C19'
LEVEL = 'model_checking'
RULE = ('bounded-exhaustive product of value alphabets; state = one (kind, value) case; non-trivial = a case '
        'whose rendered text has a fractional part, a carry into minutes/hours, a non-UTC offset, or a '
        'timecode that is not a whole number of microseconds')
ASSUMPTIONS = [
    'tolerance for durations is 0.5 ms + 1 ns (float representation noise of the input value)',
    'naive datetimes are rendered with Z, so they are compared as UTC',
    'timescales above 10^6 cannot round-trip through a microsecond timedelta; recorded as a known finding',
]

WHOLES = (0, 1, 59, 60, 3599, 3600, 86399, 86400, 31_535_999)
HALF_MS = Fraction(1, 2000) + Fraction(1, 10 ** 9)
TIMESCALES = (1, 2, 3, 7, 10, 24, 25, 30, 48, 60, 90, 240, 1000, 1001, 44100, 48000, 90000,
              10 ** 6, 10 ** 6 + 1, 10 ** 7)


def sig(*parts):
    return 'C19|' + '|'.join(str(p) for p in parts)


# ---------------------------------------------------------------------------
def check_duration(acc, value, form, exact: Fraction, date_time):
    acc.count('evaluations')
    rec = {'kind': 'duration', 'form': form, 'value': str(value) if form != 'timedelta' else
           [value.days, value.seconds, value.microseconds]}
    try:
        text = date_time.toIsoDuration(value)
    except Exception as e:
        acc.violation(sig('duration', 'render-raises', type(e).__name__, form), f'{value!r}: {e}', rec)
        return
    try:
        got, fields = iso8601.parse_duration(text)
    except iso8601.Lexical as e:
        acc.violation(sig('duration', 'lexical', form), f'toIsoDuration({value!r}) = {text!r}: {e}', rec)
        return
    bad = None
    if fields['S'] is not None and fields['S'] >= 60:
        bad = 'seconds>=60'
    elif fields['Mi'] is not None and fields['Mi'] >= 60:
        bad = 'minutes>=60'
    elif fields['negative']:
        bad = 'negative'
    if bad:
        acc.violation(sig('duration', 'field-range', bad, form), f'toIsoDuration({value!r}) = {text!r}', rec)
        return
    if abs(got - exact) > HALF_MS:
        acc.violation(sig('duration', 'value', form),
                      f'toIsoDuration({value!r}) = {text!r} which denotes {float(got)} s '
                      f'(off by {float(abs(got - exact)) * 1000:.4f} ms)', rec)
        return
    try:
        back = date_time.from_isodatetime(text)
        back_exact = Fraction(back.days * 86400 + back.seconds) + Fraction(back.microseconds, 10 ** 6)
    except Exception as e:
        acc.violation(sig('duration', 'parse-raises', type(e).__name__, form), f'{text!r}: {e}', rec)
        return
    if abs(back_exact - exact) > HALF_MS + Fraction(1, 10 ** 6):
        acc.violation(sig('duration', 'roundtrip', form),
                      f'from_isodatetime(toIsoDuration({value!r}) = {text!r}) = {back!r}', rec)
        return
    if fields['F'] or (fields['S'] == 0 and exact % 60 != 0):
        acc.nontriv(('d', text))
    acc.state(('d', form, str(exact)))
    acc.outcome(len(text))


def duration_chunk(arg):
    whole, lo, hi, tier = arg
    from dashlive.utils import date_time
    acc = core.Acc()
    for f in range(lo, hi):
        if tier == 'quick' and f < 999000 and (f % 1000) not in (0, 1, 499, 500, 501, 999):
            continue
        exact = Fraction(whole) + Fraction(f, 10 ** 6)
        fl = whole + f / 1e6
        check_duration(acc, fl, 'float', Fraction(fl), date_time)
        s = '%d.%06d' % (whole, f)
        check_duration(acc, s, 'str', Fraction(float(s)), date_time)
        td = datetime.timedelta(seconds=whole, microseconds=f)
        check_duration(acc, td, 'timedelta', exact, date_time)
    if lo == 0:
        acc.sample({'duration': '%d.%06d' % (whole, 999600), 'rendered': date_time.toIsoDuration(whole + 0.9996)})
    return acc


def whole_seconds_chunk(_):
    from dashlive.utils import date_time
    acc = core.Acc()
    vals = set()
    k = 0
    while 2 ** k <= 10 * 366 * 86400:
        vals |= {2 ** k - 1, 2 ** k, 2 ** k + 1}
        k += 1
    vals |= {0, 59, 60, 61, 3599, 3600, 3601, 86399, 86400, 86401, 10 * 365 * 86400}
    for v in sorted(vals):
        check_duration(acc, v, 'int', Fraction(v), date_time)
        check_duration(acc, float(v) + 0.9996, 'float', Fraction(float(v) + 0.9996), date_time)
        check_duration(acc, datetime.timedelta(seconds=v, microseconds=999500), 'timedelta',
                       Fraction(v) + Fraction(9995, 10000), date_time)
    return acc


# ---------------------------------------------------------------------------
DATES = ((1970, 1, 1), (2000, 2, 29), (2023, 12, 31), (2024, 2, 29), (2024, 3, 1), (2038, 1, 19))
BOUNDARY_US = (0, 1, 7, 9, 10, 99, 100, 101, 499, 500, 999, 1000, 1001, 9999, 10000, 99999, 100000,
               123456, 290000, 499999, 500000, 500001, 570000, 999000, 999998, 999999)


def offsets():
    out = []
    m = -12 * 60
    while m <= 14 * 60:
        out.append(m)
        m += 15
    return out


def off_text(m):
    sign = '-' if m < 0 else '+'
    a = abs(m)
    return f'{sign}{a // 60:02d}:{a % 60:02d}'


def check_datetime(acc, x, how, date_time, prior=None):
    acc.count('evaluations')
    rec = {'kind': 'datetime', 'how': how, 'iso': x.isoformat()}
    if prior:
        rec['prior'] = prior        # what was rendered before, in order
    try:
        text = date_time.to_iso_datetime(x)
        own = iso8601.parse_datetime(text)
    except iso8601.Lexical as e:
        acc.violation(sig('datetime', 'lexical'), f'to_iso_datetime({x!r}) -> {e}', rec)
        return
    want_off = x.utcoffset() if x.tzinfo is not None else datetime.timedelta(0)
    xa = x if x.tzinfo is not None else x.replace(tzinfo=datetime.timezone.utc)
    if own != xa or own.utcoffset() != want_off:
        acc.violation(sig('datetime', 'render'), f'to_iso_datetime({x!r}) = {text!r} denotes {own!r}', rec)
        return
    try:
        back = date_time.from_isodatetime(text)
    except Exception as e:
        acc.violation(sig('datetime', 'parse-raises', type(e).__name__), f'{text!r}: {e}', rec)
        return
    if back.tzinfo is None or back.utcoffset() != want_off:
        acc.violation(sig('datetime', 'offset'), f'{text!r} parsed to {back!r} (offset {back.utcoffset()})', rec)
        return
    if back != xa:
        d = (back - xa) / datetime.timedelta(microseconds=1)
        acc.violation(sig('datetime', 'instant', 'off-by-%s' % ('1us' if abs(d) == 1 else 'more')),
                      f'from_isodatetime({text!r}) = {back.isoformat()} differs from the rendered instant by {d} us',
                      rec)
        return
    if x.microsecond or want_off:
        acc.nontriv(('dt', text))
    acc.state(('dt', text))
    acc.outcome(len(text))


def mk_dt(date, sec, us, off_min, how, timezone_mod):
    y, mo, d = date
    if how == 'naive':
        tz = None
    elif how == 'repo':
        tz = timezone_mod.UTC() if off_min == 0 else timezone_mod.FixedOffsetTimeZone(off_text(off_min))
    else:
        tz = datetime.timezone(datetime.timedelta(minutes=off_min))
    return datetime.datetime(y, mo, d, 23, 59, sec, us, tzinfo=tz)


def datetime_boundary_chunk(off_min):
    from dashlive.utils import date_time, timezone
    acc = core.Acc()
    for date in DATES:
        for sec in (0, 59):
            for us in BOUNDARY_US:
                for how in ('repo', 'stdlib') + (('naive',) if off_min == 0 else ()):
                    check_datetime(acc, mk_dt(date, sec, us, off_min, how, timezone), how, date_time)
    return acc


def datetime_history_chunk(arg):
    """Histories of length two: the same instant rendered at offset o1 and then at offset o2 - each rendering is
    faithful to the value it was given, whatever was rendered before (every ordered pair of offsets; a fresh instant
    per pair so that pairs do not interact)."""
    lo, hi = arg
    from dashlive.utils import date_time, timezone
    acc = core.Acc()
    offs = offsets()
    base = datetime.datetime(2024, 2, 29, 12, 0, 0, tzinfo=datetime.timezone.utc)
    for i in range(lo, min(hi, len(offs))):
        for j, o2 in enumerate(offs):
            o1 = offs[i]
            inst = base + datetime.timedelta(seconds=i, microseconds=j * 7 + 1)
            prior = []
            for o, how in ((o1, 'repo'), (o2, 'stdlib'), (o1, 'stdlib'), (o2, 'repo')):
                if how == 'repo':
                    tz = timezone.UTC() if o == 0 else timezone.FixedOffsetTimeZone(off_text(o))
                else:
                    tz = datetime.timezone(datetime.timedelta(minutes=o))
                x = inst.astimezone(tz)
                check_datetime(acc, x, how + ('-after-another-offset' if prior else ''), date_time, prior=list(prior))
                prior.append([x.isoformat(), how])
    return acc


def datetime_full_chunk(arg):
    off_min, sec, lo, hi = arg
    from dashlive.utils import date_time, timezone
    acc = core.Acc()
    for us in range(lo, hi):
        check_datetime(acc, mk_dt((2024, 2, 29), sec, us, off_min, 'repo', timezone), 'repo', date_time)
    return acc


# ---------------------------------------------------------------------------
def timecodes():
    vals = set(range(0, 5001))
    for b in (2 ** 31, 2 ** 32, 2 ** 53):
        vals |= {b - 1, b, b + 1}
    return sorted(vals)


def tick_chunk(ts):
    from dashlive.utils import date_time
    acc = core.Acc()
    us1 = datetime.timedelta(microseconds=1)
    prev_td = None
    prev_tc = None
    cls = 'timescale<=1e6' if ts <= 10 ** 6 else 'timescale>1e6'
    for tc in timecodes():
        if tc // ts > 8 * 10 ** 13:      # not representable as a timedelta at all
            continue
        acc.count('evaluations')
        rec = {'kind': 'tick', 'timescale': ts, 'timecode': tc}
        td = date_time.timecode_to_timedelta(tc, ts)
        exact = Fraction(tc, ts)
        got = Fraction(td // us1, 10 ** 6)
        if not (exact - Fraction(1, 10 ** 6) < got <= exact):
            acc.violation(sig('tick', 'forth-value', cls), f'timecode_to_timedelta({tc},{ts}) = {td!r}, exact {float(exact)}', rec)
        if prev_td is not None and td < prev_td:
            acc.violation(sig('tick', 'forth-monotone', cls), f'timecode {prev_tc}->{tc} @ {ts}: {prev_td} -> {td}', rec)
        back = date_time.timedelta_to_timecode(td, ts)
        if abs(back - tc) > 1:
            acc.violation(sig('tick', 'roundtrip-tc', cls),
                          f'timedelta_to_timecode(timecode_to_timedelta({tc},{ts})) = {back}', rec)
        # other direction: delta -> timecode -> delta, within one tick (1/ts s)
        if tc <= 5000:
            for base_us in (tc, tc * 997 + 1, 86400 * 10 ** 6 + tc):
                d = datetime.timedelta(microseconds=base_us)
                acc.count('evaluations')
                code = date_time.timedelta_to_timecode(d, ts)
                d2 = date_time.timecode_to_timedelta(code, ts)
                err = abs(Fraction(base_us, 10 ** 6) - Fraction(d2 // us1, 10 ** 6))
                if err > Fraction(1, ts) + Fraction(1, 10 ** 6):
                    acc.violation(sig('tick', 'roundtrip-delta', cls),
                                  f'{d!r} -> {code} @ {ts} -> {d2!r}', {'kind': 'tick-delta', 'timescale': ts, 'us': base_us})
                ex = Fraction(base_us * ts, 10 ** 6)
                if not (ex - 1 < code <= ex):
                    acc.violation(sig('tick', 'back-value', cls), f'timedelta_to_timecode({d!r},{ts}) = {code}, exact {float(ex)}',
                                  {'kind': 'tick-delta', 'timescale': ts, 'us': base_us})
        if (tc * 10 ** 6) % ts:
            acc.nontriv(('tick', ts, tc))
        acc.state(('tick', ts, tc))
        prev_td, prev_tc = td, tc
    # multiply / scale against exact arithmetic
    for us in (0, 1, 999_999, 1_000_000, 1_500_000, 4_004_000, 86_400_000_000 + 1, 3_600_000_001):
        d = datetime.timedelta(microseconds=us)
        prev = None
        for num in (0, 1, 2, 3, ts, ts + 1, 48000, 90000):
            acc.count('evaluations')
            m = date_time.multiply_timedelta(d, num)
            ex = (us * num) // 10 ** 6
            rec = {'kind': 'multiply', 'us': us, 'num': num, 'timescale': ts}
            if m != ex:
                acc.violation(sig('multiply', 'floor'), f'multiply_timedelta({d!r},{num}) = {m}, floor is {ex}', rec)
            for denom in (1, ts):
                s = date_time.scale_timedelta(d, num, denom)
                exs = Fraction(us * num, 10 ** 6 * denom)
                if abs(Fraction(s) - exs) > Fraction(1, denom) + Fraction(1, 10 ** 6):
                    acc.violation(sig('scale', 'value'), f'scale_timedelta({d!r},{num},{denom}) = {s}, exact {float(exs)}', rec)
            acc.state(('mul', ts, us, num))
    return acc


def filters_chunk(_):
    """The Jinja filters are the same functions: conformance on a small set."""
    acc = core.Acc()
    import jinja2
    from dashlive.server import template_tags
    from dashlive.utils import date_time
    env = jinja2.Environment()
    env.filters['isoDuration'] = template_tags.isoDuration
    env.filters['isoDateTime'] = template_tags.isoDateTime
    t1 = env.from_string('{{ v|isoDuration }}')
    t2 = env.from_string('{{ v|isoDateTime }}')
    for v in (0, 0.9996, 59.9996, 3599.9995, 4.004, 86400):
        acc.count('evaluations')
        if t1.render(v=v) != date_time.toIsoDuration(v):
            acc.violation(sig('filter', 'isoDuration'), f'{v}', {'kind': 'filter', 'v': v})
        check_duration(acc, v, 'filter', Fraction(v), date_time)
    for us in (0, 1, 290000, 999999):
        x = datetime.datetime(2024, 2, 29, 23, 59, 59, us, tzinfo=datetime.timezone.utc)
        acc.count('evaluations')
        if t2.render(v=x) != date_time.to_iso_datetime(x):
            acc.violation(sig('filter', 'isoDateTime'), f'{x}', {'kind': 'filter-dt', 'us': us})
    return acc


# ---------------------------------------------------------------------------
# call histories: the value a function returns does not depend on the calls made before it (mc/history.py)

def lib_call(entry):
    """entry = (label, function name, argument spec) -> repr of the result (or of the exception type)."""
    from dashlive.utils import date_time, timezone
    _, fn, spec = entry

    def build(x):
        if isinstance(x, (list, tuple)) and x and x[0] == 'dt':
            _, iso, off, how = x
            d = datetime.datetime.fromisoformat(iso)
            if off is None:
                return d
            if how == 'repo':
                tz = timezone.UTC() if off == 0 else timezone.FixedOffsetTimeZone(off_text(off))
            else:
                tz = datetime.timezone(datetime.timedelta(minutes=off))
            return d.replace(tzinfo=datetime.timezone.utc).astimezone(tz)
        if isinstance(x, (list, tuple)) and x and x[0] == 'td':
            return datetime.timedelta(microseconds=x[1])
        return x
    args = [build(a) for a in spec]
    try:
        r = getattr(date_time, fn)(*args)
    except Exception as e:
        return f'raises {type(e).__name__}'
    if isinstance(r, datetime.datetime):
        return f'{r.isoformat()} {r.utcoffset()}'
    return repr(r)


def call_alphabet(tier):
    out = []
    inst = '2024-02-29T23:59:59.290000'
    for off, how in ((0, 'repo'), (0, 'stdlib'), (60, 'repo'), (-570, 'stdlib'), (None, 'naive')):
        out.append((f'to_iso_datetime|{off}|{how}', 'to_iso_datetime', [['dt', inst, off, how]]))
    out.append(('to_iso_datetime|other-instant', 'to_iso_datetime', [['dt', '2024-03-01T00:00:00', 0, 'repo']]))
    for text in ('2024-02-29T23:59:59.29Z', '2024-03-01T00:59:59.290000+01:00', '2024-02-29T14:29:59.29-09:30',
                 '2024-02-29T23:59:59', 'PT4.004S', 'PT1H0M0.5S', 'P1DT1S', '2024-02-29'):
        out.append((f'from_isodatetime|{text}', 'from_isodatetime', [text]))
    for v in (0, 0.9996, 59.9996, 4.004, '4.004', 86400, 3599.9995):
        out.append((f'toIsoDuration|{v!r}', 'toIsoDuration', [v]))
    for us in (0, 1, 999999, 4004000, 86400000001):
        out.append((f'toIsoDuration|td{us}', 'toIsoDuration', [['td', us]]))
        out.append((f'timedelta_to_timecode|{us}|90000', 'timedelta_to_timecode', [['td', us], 90000]))
        out.append((f'multiply_timedelta|{us}|48000', 'multiply_timedelta', [['td', us], 48000]))
    for tc, ts in ((0, 1), (1, 3), (90001, 90000), (2 ** 32 + 1, 10 ** 7)):
        out.append((f'timecode_to_timedelta|{tc}|{ts}', 'timecode_to_timedelta', [tc, ts]))
    return out


def _dispatch(item):
    kind, arg = item
    return {'dur': duration_chunk, 'whole': whole_seconds_chunk, 'dtb': datetime_boundary_chunk,
            'dtf': datetime_full_chunk, 'tick': tick_chunk, 'filt': filters_chunk,
            'dth': datetime_history_chunk}[kind](arg).compact()


def run(ctx):
    items = []
    step = 50000
    for w in WHOLES:
        for lo in range(0, 10 ** 6, step):
            items.append(('dur', (w, lo, lo + step, ctx.tier)))
    items.append(('whole', None))
    for off in offsets():
        items.append(('dtb', off))
    full_offsets = (0, 60) if ctx.quick else (0, 60, -570, 840, -720, 345)
    if ctx.quick:
        # all microseconds of one second at two offsets, quick; six offsets x two seconds thorough
        for off in full_offsets:
            for lo in range(0, 10 ** 6, 100000):
                items.append(('dtf', (off, 59, lo, lo + 100000)))
    else:
        for off in full_offsets:
            for sec in (0, 59):
                for lo in range(0, 10 ** 6, 100000):
                    items.append(('dtf', (off, sec, lo, lo + 100000)))
    for lo in range(0, len(offsets()), 8):
        items.append(('dth', (lo, lo + 8)))
    for ts in TIMESCALES:
        items.append(('tick', ts))
    items.append(('filt', None))
    ctx.merge_all(ctx.pmap(_dispatch, items, chunksize=2))
    from mc import history
    alpha = call_alphabet(ctx.tier)
    ctx.merge_all(ctx.pmap(history.call_pair_item, [('C19', a, alpha, 'props.c19:lib_call') for a in range(len(alpha))]))
    ctx.extra.update(call_history_alphabet=[a[0] for a in alpha], call_history_pairs=len(alpha) * (len(alpha) - 1))
    ctx.acc.counts['transitions'] = ctx.acc.counts['evaluations']
    ctx.acc.counts['traces'] = ctx.acc.counts['evaluations']
    ctx.extra.update(
        alphabet=dict(wholes=list(WHOLES), fractions='all 10^6' if not ctx.quick else
                      'ms-residue in {0,1,499,500,501,999} (6000) + all >= .999',
                      forms=['float', 'str', 'timedelta'], offsets=len(offsets()), dates=len(DATES),
                      boundary_us=len(BOUNDARY_US), full_microsecond_offsets=list(full_offsets),
                      timescales=list(TIMESCALES), timecodes=len(timecodes())),
        levels_completed='complete product of the stated alphabets')


def replay(record):
    from dashlive.utils import date_time, timezone
    acc = core.Acc()
    k = record['kind']
    if k == 'call-history-pair':
        from mc import history
        a = history.run_forked(history.call_pair_item, ('C19', 0, [tuple(record['a']), tuple(record['b'])], record['runner']))
        return [(s, v[0]['what']) for s, v in a.viol.items()]
    if k == 'duration':
        form = record['form']
        if form == 'timedelta':
            d, s, us = record['value']
            v = datetime.timedelta(days=d, seconds=s, microseconds=us)
            exact = Fraction(d * 86400 + s) + Fraction(us, 10 ** 6)
        elif form == 'str':
            v = record['value']
            exact = Fraction(float(v))
        elif form == 'int':
            v = int(record['value'])
            exact = Fraction(v)
        else:
            v = float(record['value'])
            exact = Fraction(v)
        check_duration(acc, v, form, exact, date_time)
    elif k == 'datetime':
        def build(iso, how):
            x = datetime.datetime.fromisoformat(iso)
            if how.startswith('repo') and x.tzinfo is not None:
                off = int(x.utcoffset().total_seconds() // 60)
                x = x.replace(tzinfo=timezone.UTC() if off == 0 else timezone.FixedOffsetTimeZone(off_text(off)))
            return x
        for iso, how in record.get('prior') or []:
            date_time.to_iso_datetime(build(iso, how))
        check_datetime(acc, build(record['iso'], record['how']), record['how'], date_time)
    elif k in ('tick', 'tick-delta', 'multiply'):
        acc.merge(tick_chunk(record['timescale']))
    else:
        acc.merge(filters_chunk(None))
    return [(s, v[0]['what']) for s, v in acc.viol.items()]
