"""C13 - byte-range requests return exactly the requested bytes.

Bounded-exhaustive product: range-capable URLs x Range header strings
(all first-last / first- / -suffix combinations over integers around
0, L-1, L, L+1; every string of <= k tokens over a small token alphabet;
header absent), judged by an RFC 7233 reference evaluator against the
un-ranged body of the same URL at the same virtual instant.
"""
from __future__ import annotations

import datetime
import itertools

from mc import core, crawl, range7233, world as W

ID = 'C13'
LEVEL = 'model_checking'
PREFORK_WORLD = {}
RULE = ('state = (URL, Range header string); all strings of the alphabets enumerated; non-trivial = a request whose '
        'header is a syntactically valid single byte-range (satisfiable or not) and whose response was compared '
        'with the reference slice')
ASSUMPTIONS = [
    'a suffix range longer than the resource may be answered 206 with the whole body or 200 with the whole body',
    'a header that is not a single RFC 7233 byte-range may be refused (400) or served self-consistently',
    'on-demand files: full representation = the stored file bytes; absent Range there may be refused with 400',
]

NOW = datetime.datetime(2024, 3, 1, 12, 0, 3, 500000, tzinfo=datetime.timezone.utc)
TOKENS = ['bytes', 'items', '=', '-', ',', ' ', '0', '7', 'x', '+']


def urls():
    return [
        ('vod-number-clear', '/dash/vod/synirr/synirr_v1/2.m4v', None),
        ('vod-time-clear', '/dash/vod/bbb/bbb_a1/time/176128.m4a', None),
        ('vod-number-cenc', '/dash/vod/synenc/synenc_v1_enc/2.m4v?drm=all', None),
        ('live-number-clear', '/dash/live/synirr/synirr_v1/20.m4v?start=2024-03-01T11:59:00Z', None),
        ('odvod-file', '/dash/odvod/synirr/synirr_v1.mp4', ('synirr', 'synirr_v1')),
        ('odvod-file-big', '/dash/odvod/bbb/bbb_t1.mp4', ('bbb', 'bbb_t1')),
        # a file with padding boxes between its fragments and an mfra box after the last one
        ('odvod-file-trailer', '/dash/odvod/syntrk/syntrk_a1.mp4', ('syntrk', 'syntrk_a1')),
        # the largest stored file (2.8 MB): slices longer than any read or buffer size the service uses (16 KiB reader
        # buffers, power-of-two chunk sizes up to 2 MiB lie inside the integer alphabet of this length)
        ('odvod-file-large', '/dash/odvod/tears/tears_v2.mp4', ('tears', 'tears_v2')),
        ('mps-number', '/mps/vod/testmps/{ppk}/bbb_v7/2.m4v', None),
        ('vod-number-big', '/dash/vod/bbb/bbb_v7/3.m4v', None),
        # segments that the service post-processes after encoding (corruption rewrites bytes inside mdat, events add boxes)
        ('vod-number-corrupted', '/dash/vod/bbb/bbb_v7/4.m4v?vcorrupt=4&frames=2', None),
        ('vod-number-events', '/dash/vod/bbb/bbb_v7/2.m4v?events=ping&ping__interval=500', None),
        ('live-number-cenc-corrupted', '/dash/live/bbb/bbb_v7_enc/20.m4v?drm=all&vcorrupt=20&start=2024-03-01T11:58:00Z', None),
    ]


def integer_headers(L):
    vals = {0, 1, 2, max(L - 2, 0), max(L - 1, 0), L, L + 1, 2 * L, 10 ** 12}
    # resources longer than a buffer or chunk size: both sides of the power-of-two sizes below the length
    vals |= {v for p in (14, 16, 20, 21) for v in ((1 << p) - 1, 1 << p, (1 << p) + 1) if (1 << p) < L}
    vals = sorted(vals)
    out = []
    for a in vals:
        for b in vals:
            out.append(f'bytes={a}-{b}')
        out.append(f'bytes={a}-')
        out.append(f'bytes=-{a}')
    out += ['BYTES=0-1', 'bytes=0-0', ' bytes=1-2 ', 'bytes = 1-2', 'bytes=1 - 2', 'bytes=00001-00002',
            'bytes=1-2,4-5', 'bytes=1-2, 4-5', 'items=1-2', 'bytes=-', 'bytes=', 'bytes', '', 'bytes=1-2-3',
            'bytes=--1', 'bytes=a-b', 'bytes=1-b', 'bytes=0x1-0x2', 'bytes=1.5-2', 'bytes=-1-2', 'bytes=+1-2',
            'bytes=1-+2', 'bytes=' + '9' * 30 + '-', 'bytes=-' + '9' * 30, 'bytes=0-' + '9' * 30,
            'bytes=١-٢', 'bytes=1–2']
    return out


def token_headers(k):
    out = []
    for n in range(1, k + 1):
        for combo in itertools.product(TOKENS, repeat=n):
            out.append(''.join(combo))
    return out


def judge(acc, label, url, header, resp, full, mandatory):
    L = len(full)
    ev = range7233.evaluate(header, L)
    rec = {'label': label, 'url': url, 'range': header}
    cr = W.header(resp, 'Content-Range')
    cl = W.header(resp, 'Content-Length')

    def bad(clause, text):
        acc.violation(f'C13|{clause}', f'{label} {url} Range: {header!r} (length {L}): {text}', rec)
    acc.outcome((ev[0], resp.status))
    if resp.status >= 500 or resp.exc is not None:
        bad(f'5xx|{ev[0]}', f'status {resp.status} {W.crash_signature(resp.exc)}')
        return

    def consistent():
        if resp.status == 206:
            m = range7233.CONTENT_RANGE.match(cr or '')
            if not m:
                return f'206 with Content-Range {cr!r}'
            a, b, tot = (int(x) for x in m.groups())
            if tot != L or not (0 <= a <= b < L):
                return f'206 with Content-Range {cr!r} for a resource of {L} bytes'
            if resp.body != full[a:b + 1]:
                return f'206 body ({len(resp.body)} bytes) is not the slice {a}-{b}'
        elif resp.status == 200:
            if resp.body != full:
                return f'200 body ({len(resp.body)} bytes) is not the full representation'
        elif resp.status == 416:
            m = range7233.UNSAT_RANGE.match(cr or '')
            if not m or int(m.group(1)) != L:
                return f'416 with Content-Range {cr!r}'
        elif resp.status != 400:
            return f'status {resp.status}'
        if cl is not None and int(cl) != len(resp.body):
            return f'Content-Length {cl} but body has {len(resp.body)} bytes'
        return None

    if ev[0] == 'absent':
        if resp.status == 400 and mandatory:
            return
        if resp.status != 200 or resp.body != full:
            bad('absent', f'status {resp.status}, {len(resp.body)} bytes')
        return
    if ev[0] == 'other':
        msg = consistent()
        if msg:
            bad('not-a-single-range', msg)
        return
    acc.nontriv((label, header))
    if ev[0] == 'unsat':
        if resp.status != 416:
            bad('unsatisfiable', f'status {resp.status} instead of 416')
        else:
            msg = consistent()
            if msg:
                bad('unsatisfiable', msg)
        return
    _, a, b = ev
    kind = 'suffix' if header.strip().lower().replace(' ', '').startswith('bytes=-') else (
        'open' if header.strip().endswith('-') else 'first-last')
    whole = (a == 0 and b == L - 1)
    if resp.status == 200 and whole and resp.body == full and kind == 'suffix':
        return
    if resp.status != 206:
        rel = 'last>=length' if kind == 'first-last' and int(header.split('-')[-1].strip() or 0) >= L else (
            'suffix>length' if kind == 'suffix' and whole else 'in-range')
        bad(f'satisfiable|{kind}|{rel}', f'status {resp.status} (Content-Range {cr!r}) instead of 206 for bytes {a}-{b}')
        return
    if resp.body != full[a:b + 1]:
        bad(f'slice|{kind}', f'206 body has {len(resp.body)} bytes, slice {a}-{b} has {b - a + 1}'
            + ('' if len(resp.body) != b - a + 1 else ' (content differs)'))
        return
    if cr != f'bytes {a}-{b}/{L}':
        bad(f'content-range|{kind}', f'Content-Range {cr!r}, expected "bytes {a}-{b}/{L}"')
        return
    if cl is not None and int(cl) != len(resp.body):
        bad('content-length', f'Content-Length {cl}, body {len(resp.body)}')


def resolve(w, url):
    if '{ppk}' in url:
        with w.appctx():
            mps = w.models.MultiPeriodStream.get(name='testmps')
            url = url.replace('{ppk}', str(mps.periods[0].pk))
    return url


def execute(item):
    label, url, stored, headers = item
    w = W.World.shared()
    w.begin_item()
    acc = core.Acc()
    url = resolve(w, url)
    W.set_now(NOW)
    if stored:
        full = crawl.Stored.fixture(stored[0]).files[stored[1]]['data']
        mandatory = True
    else:
        r0 = w.get(url)
        if r0.status != 200:
            raise core.HarnessError(f'C13 base URL {url} answered {r0.status}')
        full = r0.body
        mandatory = False
    for h in headers:
        r = w.get(url, headers=None if h is None else {'Range': h})
        acc.count('evaluations')
        acc.count('transitions')
        acc.state((label, h))
        judge(acc, label, url, h, r, full, mandatory)
    return acc


def lengths(_=None):
    w = W.World.shared()
    W.set_now(NOW)
    out = {}
    for label, url, stored in urls():
        if stored:
            out[label] = len(crawl.Stored.fixture(stored[0]).files[stored[1]]['data'])
        else:
            r = w.get(resolve(w, url))
            if r.status != 200:
                raise core.HarnessError(f'C13 base URL {url} answered {r.status}')
            out[label] = len(r.body)
    return out


def plan(tier, Ls):
    items = []
    k_small = 3 if tier == 'quick' else 4
    for label, url, stored in urls():
        L = Ls[label]
        hs = [None] + integer_headers(L)
        items.append((label, url, stored, hs))
        if label in ('vod-number-clear', 'odvod-file', 'vod-number-cenc', 'mps-number'):
            toks = token_headers(k_small if label != 'vod-number-clear' else k_small + (0 if tier == 'quick' else 1))
            for ch in core.chunks(toks, 120):
                items.append((label, url, stored, ch))
    return items


def run(ctx):
    Ls = lengths()
    items = plan(ctx.tier, Ls)
    ctx.merge_all(ctx.pmap(execute, items))
    ctx.acc.counts['traces'] = ctx.acc.counts['evaluations']
    ctx.extra.update(urls={u[0]: u[1] for u in urls()}, lengths=Ls, token_alphabet=TOKENS,
                     token_depth={'quick': 3, 'thorough': '4 (5 on vod-number-clear)'}[ctx.tier],
                     levels_completed='complete products of the stated header alphabets for every URL')


def replay(record):
    w = W.World.shared()
    stored = None
    for label, url, st in urls():
        if label == record['label']:
            stored = st
    acc = execute((record['label'], record['url'], stored, [record['range']]))
    return [(s, v[0]['what']) for s, v in acc.viol.items()]
