"""C06 - static manifests describe the stored media completely and exactly.

Bounded-exhaustive product (streams x vod/odvod-capable templates x option
deviation level 1 (2 thorough) x addressing) with an index cursor walked over
every enumerated segment, first, last and last+1; compared with the
independent scan of the stored files.
"""
from __future__ import annotations

import datetime
from fractions import Fraction

from mc import bmff, core, crawl, mpd, world as W
from mc.explorer import deviation_vectors
from props import c01

ID = 'C06'
LEVEL = 'model_checking'
PREFORK_WORLD = {}
RULE = ('state = (stream, template, mode, option vector, representation, index cursor); transition = fetch the next '
        'index; non-trivial = an enumerated segment/range that was fetched and compared with the stored scan '
        '(distinct by config, representation, index)')
ASSUMPTIONS = [
    'numbers enumerated per 23009-1 5.3.9.5.3: ceil(PeriodDuration x timescale / @duration)',
    'on-demand ranges: a range must start and end on top-level box boundaries, contain exactly one moof and one mdat, '
    'and the ranges must tile the file from the end of the initialization range to the end of its last segment (only boxes that '
    'belong to no segment, e.g. a trailing mfra, may follow)',
    'presentation duration compared with the reference (first video) file duration to 0.5 ms',
]

NOW = datetime.datetime(2024, 3, 1, 12, 0, 3, 500000, tzinfo=datetime.timezone.utc)
STREAMS = ('bbb', 'tears', 'synirr', 'synoff', 'synnot', 'synwild', 'synnum', 'syndef', 'syntrk', 'synzero')
VOD_TEMPLATES = ('hand_made', 'manifest_a', 'manifest_b', 'manifest_e', 'manifest_ef', 'manifest_h', 'manifest_i',
                 'manifest_n')
ODVOD_TEMPLATES = ('hand_made', 'manifest_vod_aiv')
DEFAULTS = {k: None for k in ('abr', 'acodec', 'base', 'timeline', 'drm', 'events')}
ALPHABET = {
    'abr': [None, '0'],
    'acodec': [None, 'ec-3', 'any'],
    'base': [None, '0'],
    'timeline': [None, '1'],
    'drm': [None, 'all', 'clearkey-moov'],
    'events': [None, 'ping'],
}


def plan(tier):
    items = []
    levels = (0, 1) if tier == 'quick' else (0, 1, 2)
    vecs = []
    for lv in levels:
        vecs += list(deviation_vectors(DEFAULTS, ALPHABET, lv))
    for stream in STREAMS:
        for mode, templates in (('vod', VOD_TEMPLATES), ('odvod', ODVOD_TEMPLATES)):
            for tmpl in templates:
                for v in vecs:
                    if v.get('drm') and stream != 'bbb':
                        continue
                    if v.get('drm') and mode == 'odvod' and 'moov' in v['drm']:
                        continue
                    if tier == 'quick' and stream in ('bbb', 'tears') and len(v) >= 1 and \
                            tmpl not in ('hand_made', 'manifest_e', 'manifest_n', 'manifest_vod_aiv'):
                        continue
                    items.append({'stream': stream, 'mode': mode, 'template': tmpl, 'opts': dict(v)})
    return items


def execute(item):
    w = W.World.shared()
    w.begin_item()
    acc = core.Acc()
    stream, mode, tmpl, opts = item['stream'], item['mode'], item['template'], item['opts']
    url = crawl.manifest_url(mode, stream, tmpl, opts)
    st = crawl.Stored.fixture(stream)
    rec = dict(item, url=url)
    W.set_now(NOW)
    r = w.get(url)
    acc.count('evaluations')
    acc.count('transitions')
    acc.outcome(('manifest', mode, r.status))
    if r.status != 200:
        return acc
    try:
        doc = mpd.Mpd(r.body, 'http://localhost' + url.split('?')[0])
    except Exception as e:
        acc.outcome(('unreadable', type(e).__name__))
        return acc
    acc.count('traces')
    if doc.type != 'static':
        acc.violation(f'C06|not-static|{mode}', f'{url}: MPD@type={doc.type}', rec)
        return acc

    def bad(clause, text, **extra):
        acc.violation(f'C06|{clause}', f'{url}: {text}', dict(rec, **extra))

    # declared presentation duration
    ref = c01.STREAM_FILES[stream]['ref']
    _, ref_dur = st.seg_starts(ref)
    declared = doc.mpd_duration
    src_decl = 'mediaPresentationDuration'
    if declared is None:
        ds = [p.duration for p in doc.periods]
        declared = sum(ds) if all(d is not None for d in ds) else None
        src_decl = 'sum of Period@duration'
    if declared is None:
        bad('duration-missing', 'neither mediaPresentationDuration nor Period durations')
    elif abs(declared - ref_dur) > Fraction(1, 2000):
        bad('presentation-duration', f'{src_decl} = {float(declared)} s, reference duration {float(ref_dur)} s')
    for p in doc.periods:
        if p.duration is not None and doc.mpd_duration is not None and len(doc.periods) == 1 and \
                abs(p.duration - ref_dur) > Fraction(1, 2000):
            bad('period-duration', f'Period@duration = {float(p.duration)} s, reference {float(ref_dur)} s')

    for rep in doc.all_reps():
        if rep.id not in st.files:
            acc.outcome(('unknown-rep', rep.id))
            continue
        f = st.files[rep.id]
        kind = rep.content_type
        segs_stored = f['segs']
        ts_stored = f['init'].timescale
        if rep.seglist is not None:
            check_ranges(w, acc, bad, rec, rep, f, kind)
            continue
        try:
            segs = doc.static_segments(rep)
        except mpd.MpdError as e:
            bad(f'unenumerable|{kind}', str(e))
            continue
        if not segs:
            acc.outcome(('no-segments', rep.id))
            continue
        iu = rep.init_url()
        if iu:
            ir = w.get(mpd.split_url(iu))
            acc.count('evaluations')
            acc.count('transitions')
            if ir.status != 200:
                bad(f'init|{kind}', f'{iu} answered {ir.status}')
        mode_a = segs[0]['kind']
        expect_t = None
        total = 0
        first_t = None
        n_ok = 0
        for i, seg in enumerate(segs):
            path = mpd.split_url(seg['url'])
            sr = w.get(path)
            acc.count('evaluations')
            acc.count('transitions')
            acc.state((stream, mode, tmpl, tuple(sorted(opts.items())), rep.id, i))
            if sr.status != 200:
                where = 'last' if i == len(segs) - 1 else ('first' if i == 0 else 'interior')
                beyond = '|beyond-stored-count' if i >= len(segs_stored) else ''
                bad(f'enumerated-not-served|{mode_a}|{kind}|{where}{beyond}',
                    f'{rep.id}: enumerated segment {i + 1}/{len(segs)} '
                    f'({"$Time$=%d" % seg["t"] if mode_a == "time" else "$Number$=%d" % seg["n"]}) answered '
                    f'{sr.status}; stored file has {len(segs_stored)} segments', rep=rep.id)
                continue
            acc.nontriv((stream, mode, tmpl, tuple(sorted(opts.items())), rep.id, i))
            try:
                frag = bmff.Fragment(sr.body, f['init'])
            except bmff.Malformed as e:
                bad(f'malformed|{kind}', f'{path}: {e}', rep=rep.id)
                continue
            n_ok += 1
            tf = frag.tfdt['base_media_decode_time'] if frag.tfdt else None
            if tf is None or frag.duration is None:
                bad(f'undecodable-times|{kind}', f'{path}: no tfdt or durations', rep=rep.id)
                continue
            if first_t is None:
                first_t = tf
                if tf != segs_stored[0]['tfdt']:
                    bad(f'first-decode-time|{kind}', f'{rep.id}: first segment has tfdt {tf}, the file starts at '
                        f'{segs_stored[0]["tfdt"]}', rep=rep.id)
            if expect_t is not None and tf != expect_t:
                bad(f'gap|{mode_a}|{kind}', f'{rep.id}: segment {i + 1} has tfdt {tf}, previous one ended at {expect_t}',
                    rep=rep.id)
            expect_t = tf + frag.duration
            total += frag.duration
        stored_total = sum(s['duration'] for s in segs_stored)
        if rep.template is not None and rep.template.timeline is not None:
            tl_total = sum(d for _, d in rep.template.timeline)
            if len(segs) == len(segs_stored) and tl_total != stored_total:
                bad(f'timeline-total|{kind}', f'{rep.id}: the SegmentTimeline adds up to {tl_total} ticks, the stored '
                    f'track lasts {stored_total}', rep=rep.id)
        if n_ok == len(segs) and total != stored_total:
            bad(f'total-duration|{mode_a}|{kind}', f'{rep.id}: fetched segments sum to {total} ticks, stored media '
                f'is {stored_total}', rep=rep.id)
        if len(segs) < len(segs_stored):
            bad(f'incomplete|{mode_a}|{kind}', f'{rep.id}: manifest enumerates {len(segs)} segments, stored file has '
                f'{len(segs_stored)}', rep=rep.id)
        # last + 1
        last = segs[-1]
        nxt = rep.media_url(number=last['n'] + 1, time=last['t'] + last['d'])
        nr = w.get(mpd.split_url(nxt))
        acc.count('evaluations')
        acc.count('transitions')
        acc.state((stream, mode, tmpl, tuple(sorted(opts.items())), rep.id, 'last+1'))
        if nr.status != 404:
            bad(f'past-the-end|{mode_a}|{kind}|status={nr.status}', f'{rep.id}: {mpd.split_url(nxt)} (one past the last '
                f'enumerated segment) answered {nr.status}', rep=rep.id)
    return acc


def check_ranges(w, acc, bad, rec, rep, f, kind):
    data = f['data']
    sl = rep.seglist
    root = bmff.parse(data)
    starts = {b.start for b in root.children}
    ends = {b.end - 1 for b in root.children}
    path = mpd.split_url(rep.base_url)
    if sl['init'] is None:
        bad(f'range-init-missing|{kind}', f'{rep.id}: SegmentList without Initialization range', rep=rep.id)
        return
    ia, ib = sl['init']
    if ia != 0:
        bad(f'range-init|{kind}', f'{rep.id}: init range {ia}-{ib} does not start at 0', rep=rep.id)
    moov = root.find('moov')
    if ib < moov.end - 1 or ib not in ends:
        bad(f'range-init|{kind}', f'{rep.id}: init range {ia}-{ib} does not end on a box boundary after moov '
            f'(moov ends at {moov.end - 1})', rep=rep.id)
    cur = ib + 1
    for i, (a, b) in enumerate(sl['media']):
        acc.state((rec['stream'], rec['mode'], rec['template'], tuple(sorted(rec['opts'].items())), rep.id, i))
        if a != cur:
            bad(f'range-tiling|{kind}', f'{rep.id}: media range {i + 1} starts at {a}, previous range ended at {cur - 1}',
                rep=rep.id)
        cur = b + 1
        if a not in starts or b not in ends or b >= len(data):
            bad(f'range-boundary|{kind}', f'{rep.id}: media range {a}-{b} is not cut on top-level box boundaries',
                rep=rep.id)
            continue
        inside = [x for x in root.children if a <= x.start and x.end - 1 <= b]
        if sum(1 for x in inside if x.type == b'moof') != 1 or sum(1 for x in inside if x.type == b'mdat') != 1:
            bad(f'range-content|{kind}', f'{rep.id}: media range {a}-{b} holds {[x.name for x in inside]}', rep=rep.id)
        rr = w.get(path, headers={'Range': f'bytes={a}-{b}'})
        acc.count('evaluations')
        acc.count('transitions')
        if rr.status != 206 or rr.body != data[a:b + 1]:
            bad(f'range-fetch|{kind}', f'{rep.id}: Range bytes={a}-{b} of {path} answered {rr.status} with '
                f'{len(rr.body)} bytes', rep=rep.id)
        else:
            acc.nontriv((rec['stream'], rec['template'], tuple(sorted(rec['opts'].items())), rep.id, 'range', i))
    rest = [x.name for x in root.children if x.start >= cur]
    if cur != len(data) and (cur not in starts or any(n in ('moof', 'mdat', 'styp', 'sidx', 'free', 'skip') for n in rest)):
        # (boxes that belong to no segment - an mfra index after the last fragment - need not be in a range; media,
        # segment-type/index and padding boxes do: they belong to the segment in front of or behind them)
        bad(f'range-tiling|{kind}', f'{rep.id}: ranges end at {cur - 1}, file has {len(data)} bytes and goes on with {rest}',
            rep=rep.id)
    n_stored = len(f['segs'])
    if len(sl['media']) != n_stored:
        bad(f'range-count|{kind}', f'{rep.id}: {len(sl["media"])} media ranges, stored file has {n_stored} segments',
            rep=rep.id)
    ir = w.get(path, headers={'Range': f'bytes={ia}-{ib}'})
    acc.count('evaluations')
    acc.count('transitions')
    if ir.status != 206 or ir.body != data[ia:ib + 1]:
        bad(f'range-fetch|{kind}', f'{rep.id}: init Range bytes={ia}-{ib} answered {ir.status}', rep=rep.id)


def run(ctx):
    items = plan(ctx.tier)
    ctx.merge_all(ctx.pmap(execute, items))
    ctx.extra.update(work_items=len(items), alphabet=ALPHABET, streams=list(STREAMS),
                     templates={'vod': list(VOD_TEMPLATES), 'odvod': list(ODVOD_TEMPLATES)},
                     levels_completed='deviation level <= 1' if ctx.quick else 'deviation level <= 2')


def replay(record):
    acc = execute({k: record[k] for k in ('stream', 'mode', 'template', 'opts')})
    return [(s, v[0]['what']) for s, v in acc.viol.items()]
