"""C17 - management histories keep the store consistent and the service up.

Explicit-state search with exact snapshots (SQLite serialize + blob tree): the
media user performs every operation of a concrete action alphabet through the
real endpoints (fresh CSRF tokens per step) in every reachable state up to a
depth bound; states are de-duplicated on the store content. After every step:
referential invariants on the real rows, exact ownership closure for deletions
(computed from the pre-state), every listed stream / multi-period stream serves
its manifests or fails with a clean 4xx, uploaded and indexed files are served
back byte-exactly; at the last level each state is compared with a replay of
its history from the initial store (differential restart oracle).
"""
from __future__ import annotations

import datetime
import hashlib
import io
import json
import re

from mc import core, crawl, mgmt, mpd, synth, world as W

ID = 'C17'
LEVEL = 'model_checking'
RULE = ('state = canonical store content (all rows except Token, blob tree) reached by a history of management '
        'operations; transition = one operation applied to a restored snapshot; non-trivial = a transition that '
        'changed the store')
ASSUMPTIONS = [
    'operations are issued by the media user through the real endpoints with CSRF tokens harvested for that step',
    'ownership: Stream owns MediaFiles own Blob and error rows and key links; keys are shared and survive; a '
    'multi-period stream owns its Periods, which own their AdaptationSets; a Period has mandatory references to both '
    'its multi-period stream and its Stream and is removed with either (the other parent row stays)',
    'a timing reference "points at an existing row" when Stream.get_timing_reference_file() - the lookup the service '
    'itself uses: name within that stream - finds one',
    'the status of the management request itself is not judged here (C16 judges it; props/c16.py replays this alphabet)',
    'orphan files left on disk after a row deletion are counted in evidence, not judged (the statement speaks of rows)',
    'de-duplication is on full row content including primary keys (sound; merges fewer states than a pk-free canon)',
]
NOW = datetime.datetime(2024, 3, 1, 12, 0, 3, tzinfo=datetime.timezone.utc)

UP_V = synth.make_file(kind='video', timescale=1000, durations=(1000, 1000, 1000), file_id=41)
UP_A = synth.make_file(kind='audio', timescale=48000, track_id=2, durations=(48000, 48000, 48000), file_id=42)
UP_E = synth.make_file(kind='video', timescale=1000, durations=(1000, 1000, 1000), file_id=43, encrypted=True,
                       iv_size=8, subsamples=True)
UP_V2 = synth.make_file(kind='video', timescale=1000, durations=(2000, 1000, 1000), file_id=44)
# the same file with the language 'xxx' in its mdhd (no valid tag): indexing succeeds and commits a media_file_error
# row (INVALID_LANGUAGE_TAG). The rows of a failed indexing are reported but never committed by the index endpoint,
# so this is the way a stored file comes to own error rows.
_i = UP_V.find(b'mdhd') - 4
assert _i > 0 and UP_V[_i + 28:_i + 30] == bytes.fromhex('55c4')
UP_BAD = UP_V[:_i + 28] + bytes.fromhex('6318') + UP_V[_i + 30:]


class Env:
    _inst = None

    @classmethod
    def get(cls):
        if cls._inst is None:
            cls._inst = Env()
        return cls._inst

    def __init__(self):
        W.set_now(NOW)
        self.w = mgmt.build_world()
        self.w.reset()
        self.rc = mgmt.RoleClient(self.w, 'media')
        self.rc.login()
        self.snap0 = self.w.snapshot()
        self.cookies = self.rc.cookies_snapshot()

    def tokens(self):
        r = self.w.request('GET', '/streams?ajax=1', client=self.rc.client)
        return r.json()['csrf_tokens']

    def lookup(self):
        return mgmt.ids(self.w)


# ---------------------------------------------------------------------------
# the action alphabet. Each action: (name, core?, fn(env, I, T) -> Resp or None)

def _req(env, method, url, **kw):
    return env.w.request(method, url, client=env.rc.client, **kw)


def _spk(I, d):
    return I['streams'].get(d, 999)


def _mf(I, name):
    return I['files'].get(name, (999, 999))


def _upload(env, I, T, d, fname, data, mime):
    return _req(env, 'POST', f'/media/{_spk(I, d)}/blob?ajax=1', content_type='multipart/form-data',
                data={'csrf_token': T['upload'], 'ajax': '1', 'file': (io.BytesIO(data), fname, mime)})


def _mps_body(I, T, name, periods, pk=None, title='the title'):
    ps = []
    for i, (pid, d, start, dur, tracks, ppk) in enumerate(periods, 1):
        ps.append({'pk': ppk, 'pid': pid, 'ordering': i, 'stream': _spk(I, d), 'start': start, 'duration': dur,
                   'tracks': [{'track_id': t, 'role': 'main', 'lang': 'und', 'encrypted': False} for t in tracks]})
    return {'pk': pk, 'name': name, 'title': title, 'options': None, 'periods': ps, 'csrf_token': T['streams']}


def _mpsa_periods(env):
    with env.w.appctx():
        m = env.w.models.MultiPeriodStream.get(name='mpsa')
        out = None
        if m is not None:
            out = (m.pk, [(p.pk, p.pid, p.stream.directory if p.stream else None) for p in m.periods])
        env.w.models.db.session.remove()
    return out


ACTIONS = []


def action(name, core_=False):
    def deco(fn):
        ACTIONS.append((name, core_, fn))
        return fn
    return deco


@action('create stream d1 (json)', True)
def _(env, I, T):
    return _req(env, 'PUT', '/streams/add?ajax=1', json_body={'title': 'D one', 'directory': 'd1', 'csrf_token': T['streams']})


@action('create stream d2 (form)')
def _(env, I, T):
    return _req(env, 'POST', '/streams/add', data={'title': 'D two', 'directory': 'd2', 'csrf_token': T['streams']})


@action('create stream with the directory of synirr', True)
def _(env, I, T):
    return _req(env, 'PUT', '/streams/add?ajax=1', json_body={'title': 'dup', 'directory': 'synirr', 'csrf_token': T['streams']})


@action('create stream with the directory of synirr, spelt prefix (json)')
def _(env, I, T):
    return _req(env, 'PUT', '/streams/add?ajax=1', json_body={'title': 'dup p', 'prefix': 'synirr', 'csrf_token': T['streams']})


@action('create stream d1, spelt prefix (form)')
def _(env, I, T):
    return _req(env, 'POST', '/streams/add', data={'title': 'D one p', 'prefix': 'd1', 'csrf_token': T['streams']})


@action('edit synirr: title + timing ref synirr_a1')
def _(env, I, T):
    return _req(env, 'POST', f'/stream/{_spk(I, "synirr")}?ajax=1',
                json_body={'title': 'renamed', 'directory': 'synirr', 'marlin_la_url': '', 'playready_la_url': 'https://x/y',
                           'timing_ref': 'synirr_a1', 'csrf_token': T['streams']})


@action('edit synirr: timing ref none', True)
def _(env, I, T):
    return _req(env, 'POST', f'/stream/{_spk(I, "synirr")}?ajax=1',
                json_body={'title': 'synthetic synirr', 'directory': 'synirr', 'marlin_la_url': '', 'playready_la_url': '',
                           'timing_ref': '', 'csrf_token': T['streams']})


@action('edit synirr: timing ref of another stream (synenc_v1)', True)
def _(env, I, T):
    return _req(env, 'POST', f'/stream/{_spk(I, "synirr")}?ajax=1',
                json_body={'title': 'synthetic synirr', 'directory': 'synirr', 'marlin_la_url': '', 'playready_la_url': '',
                           'timing_ref': 'synenc_v1', 'csrf_token': T['streams']})


@action('edit synirr: timing ref non-existing')
def _(env, I, T):
    return _req(env, 'POST', f'/stream/{_spk(I, "synirr")}?ajax=1',
                json_body={'title': 'x', 'directory': 'synirr', 'marlin_la_url': '', 'playready_la_url': '',
                           'timing_ref': 'nosuch', 'csrf_token': T['streams']})


@action('edit d1: rename directory to d9')
def _(env, I, T):
    return _req(env, 'POST', f'/stream/{_spk(I, "d1")}?ajax=1',
                json_body={'title': 'D nine', 'directory': 'd9', 'marlin_la_url': '', 'playready_la_url': '',
                           'timing_ref': '', 'csrf_token': T['streams']})


@action('stream defaults synirr (depth, events)')
def _(env, I, T):
    return _req(env, 'POST', f'/stream/{_spk(I, "synirr")}/defaults', data={'csrf_token': T['streams'], 'depth': '30', 'events': 'ping'})


@action('stream defaults synenc (drm with location)', True)
def _(env, I, T):
    return _req(env, 'POST', f'/stream/{_spk(I, "synenc")}/defaults',
                data={'csrf_token': T['streams'], 'drm_playready': 'on', 'playready__drmloc': 'moov'})


@action('stream defaults synenc (drm, default location)')
def _(env, I, T):
    return _req(env, 'POST', f'/stream/{_spk(I, "synenc")}/defaults', data={'csrf_token': T['streams'], 'drm_playready': 'on'})


@action('delete stream synirr (POST form)', True)
def _(env, I, T):
    return _req(env, 'POST', f'/stream/{_spk(I, "synirr")}/delete', data={'csrf_token': T['streams']})


@action('delete stream synenc (DELETE ajax)', True)
def _(env, I, T):
    return _req(env, 'DELETE', f'/stream/{_spk(I, "synenc")}?ajax=1&csrf_token={T["streams"]}')


@action('delete stream d1 (DELETE /delete)')
def _(env, I, T):
    return _req(env, 'DELETE', f'/stream/{_spk(I, "d1")}/delete?csrf_token={T["streams"]}')


@action('delete non-existing stream')
def _(env, I, T):
    return _req(env, 'DELETE', f'/stream/999?ajax=1&csrf_token={T["streams"]}')


@action('upload clear video upl_v9 to synirr', True)
def _(env, I, T):
    return _upload(env, I, T, 'synirr', 'upl_v9.mp4', UP_V, 'video/mp4')


@action('upload audio upl_a9 to d1')
def _(env, I, T):
    return _upload(env, I, T, 'd1', 'upl_a9.mp4', UP_A, 'audio/mp4')


@action('upload clear video upl_v9 to d1')
def _(env, I, T):
    return _upload(env, I, T, 'd1', 'upl_v9.mp4', UP_V, 'video/mp4')


@action('upload different content under the name upl_v9 to synirr')
def _(env, I, T):
    return _upload(env, I, T, 'synirr', 'upl_v9.mp4', UP_V2, 'video/mp4')


@action('replace upl_v9 of synirr by different content and index it', True)
def _(env, I, T):
    r = _upload(env, I, T, 'synirr', 'upl_v9.mp4', UP_V2, 'video/mp4')
    I2 = env.lookup()
    if 'upl_v9' in I2['files']:
        _req(env, 'GET', f'/media/index/{_mf(I2, "upl_v9")[0]}?ajax=1&csrf_token={env.tokens()["files"]}')
    return r


@action('upload a file named like a file of another stream (synenc_v1) to synirr', True)
def _(env, I, T):
    return _upload(env, I, T, 'synirr', 'synenc_v1.mp4', UP_V, 'video/mp4')


@action('upload cenc video upl_v9_enc to synirr')
def _(env, I, T):
    return _upload(env, I, T, 'synirr', 'upl_v9_enc.mp4', UP_E, 'video/mp4')


@action('upload upl_bad (language xxx) to synirr and index it (leaves an error row)', True)
def _(env, I, T):
    r = _upload(env, I, T, 'synirr', 'upl_bad.mp4', UP_BAD, 'video/mp4')
    I2 = env.lookup()
    if 'upl_bad' in I2['files']:
        _req(env, 'GET', f'/media/index/{_mf(I2, "upl_bad")[0]}?ajax=1&csrf_token={env.tokens()["files"]}')
    return r


@action('delete media upl_bad, a file with an error row (DELETE)', True)
def _(env, I, T):
    mfid, spk = _mf(I, 'upl_bad')
    return _req(env, 'DELETE', f'/stream/{spk}/{mfid}?ajax=1&csrf_token={T["files"]}')


@action('index upl_v9', True)
def _(env, I, T):
    return _req(env, 'GET', f'/media/index/{_mf(I, "upl_v9")[0]}?ajax=1&csrf_token={T["files"]}')


@action('index upl_v9_enc')
def _(env, I, T):
    return _req(env, 'GET', f'/media/index/{_mf(I, "upl_v9_enc")[0]}?ajax=1&csrf_token={T["files"]}')


@action('index upl_a9')
def _(env, I, T):
    return _req(env, 'GET', f'/media/index/{_mf(I, "upl_a9")[0]}?ajax=1&csrf_token={T["files"]}')


@action('re-index synirr_v1')
def _(env, I, T):
    return _req(env, 'GET', f'/media/index/{_mf(I, "synirr_v1")[0]}?ajax=1&csrf_token={T["files"]}')


@action('edit media synirr_a1 (track id 5, lang fra)', True)
def _(env, I, T):
    mfid, spk = _mf(I, 'synirr_a1')
    return _req(env, 'POST', f'/stream/{spk}/{mfid}/edit', data={'track_id': '5', 'lang': 'fra', 'csrf_token': T['files']})


@action('edit media synirr_v1 (same track id as the audio file)')
def _(env, I, T):
    mfid, spk = _mf(I, 'synirr_v1')
    return _req(env, 'POST', f'/stream/{spk}/{mfid}/edit', data={'track_id': '2', 'lang': 'und', 'csrf_token': T['files']})


@action('delete media synirr_a1 (DELETE)', True)
def _(env, I, T):
    mfid, spk = _mf(I, 'synirr_a1')
    return _req(env, 'DELETE', f'/stream/{spk}/{mfid}?ajax=1&csrf_token={T["files"]}')


@action('delete media synirr_v1, the timing reference (POST form)', True)
def _(env, I, T):
    mfid, spk = _mf(I, 'synirr_v1')
    return _req(env, 'POST', f'/stream/{spk}/{mfid}/delete', data={'csrf_token': T['files']})


@action('delete media synenc_v1_enc (DELETE /delete)')
def _(env, I, T):
    mfid, spk = _mf(I, 'synenc_v1_enc')
    return _req(env, 'DELETE', f'/stream/{spk}/{mfid}/delete?csrf_token={T["files"]}')


@action('delete media through the wrong stream')
def _(env, I, T):
    mfid, _spk_ = _mf(I, 'synenc_v1')
    return _req(env, 'DELETE', f'/stream/{_spk(I, "synirr")}/{mfid}?ajax=1&csrf_token={T["files"]}')


@action('add key (PUT computed)')
def _(env, I, T):
    return _req(env, 'PUT', f'/key?ajax=1&kid=0f0e0d0c0b0a09080706050403020100&csrf_token={T["kids"]}')


@action('add key (PUT explicit, duplicate kid)')
def _(env, I, T):
    kid = sorted(I['keys'])[0] if I['keys'] else '00112233445566778899aabbccddeeff'
    return _req(env, 'PUT', f'/key?ajax=1&kid={kid}&key=00000000000000000000000000000009&csrf_token={T["kids"]}')


@action('add key (PUT, the kid of an existing key in upper case)')
def _(env, I, T):
    kid = (sorted(I['keys'])[0] if I['keys'] else '00112233445566778899aabbccddeeff').upper()
    return _req(env, 'PUT', f'/key?ajax=1&kid={kid}&csrf_token={T["kids"]}')


@action('add key (PUT, the kid of an existing key as a UUID)')
def _(env, I, T):
    k = sorted(I['keys'])[0] if I['keys'] else '00112233445566778899aabbccddeeff'
    kid = f'{k[:8]}-{k[8:12]}-{k[12:16]}-{k[16:20]}-{k[20:]}'
    return _req(env, 'PUT', f'/key?ajax=1&kid={kid}&csrf_token={T["kids"]}')


@action('add key (POST form)')
def _(env, I, T):
    return _req(env, 'POST', '/key', data={'hkid': '2f0e0d0c0b0a09080706050403020100', 'hkey': '00000000000000000000000000000002',
                                            'new_key': '1', 'csrf_token': T['kids']})


@action('add key (POST form, kid typed in upper case)')
def _(env, I, T):
    return _req(env, 'POST', '/key', data={'hkid': 'AB0E0D0C0B0A09080706050403020100', 'hkey': '000000000000000000000000000000AB',
                                            'new_key': '1', 'csrf_token': T['kids']})


@action('edit key 1')
def _(env, I, T):
    kpk = I['keys'].get('1ab45440532c439994dc5c5ad9584bac', 999)
    return _req(env, 'POST', f'/key/{kpk}', data={'hkey': '00000000000000000000000000000003', 'new_key': '0', 'csrf_token': T['kids']})


@action('delete the key used by the encrypted files', True)
def _(env, I, T):
    kpk = I['keys'].get('1ab45440532c439994dc5c5ad9584bac', 999)
    return _req(env, 'DELETE', f'/key/{kpk}/delete?ajax=1&csrf_token={T["kids"]}')


@action('delete the key used by the encrypted files (POST form)', True)
def a_key_del_used_form(env, I, T):
    kpk = I['keys'].get('1ab45440532c439994dc5c5ad9584bac', 999)
    return _req(env, 'POST', f'/key/{kpk}/delete', data={'csrf_token': T['kids']})


@action('delete the unused key (POST form)')
def _(env, I, T):
    kpk = I['keys'].get('00112233445566778899aabbccddeeff', 999)
    return _req(env, 'POST', f'/key/{kpk}/delete', data={'csrf_token': T['kids']})


@action('create mps over synirr', True)
def _(env, I, T):
    body = _mps_body(I, T, 'mpsb', [('a1', 'synirr', 'PT0S', 'PT4S', [1, 2], None)])
    return _req(env, 'PUT', '/api/multi-period-streams/.add?ajax=1', json_body=body, headers=env.rc.bearer())


@action('create mps over synirr + synenc + d1')
def _(env, I, T):
    body = _mps_body(I, T, 'mpsc', [('a1', 'synirr', 'PT2S', 'PT4S', [1], None), ('a2', 'synenc', 'PT0S', 'PT5S', [1, 2], None),
                                    ('a3', 'd1', 'PT0S', 'PT2S', [1], None)])
    return _req(env, 'PUT', '/api/multi-period-streams/.add?ajax=1', json_body=body, headers=env.rc.bearer())


@action('create mps whose period has the id of a period of mpsa (p1), other timing and tracks', True)
def _(env, I, T):
    # period ids are unique within one multi-period stream only
    body = _mps_body(I, T, 'mpse', [('p1', 'synirr', 'PT1S', 'PT3S', [1], None)])
    return _req(env, 'PUT', '/api/multi-period-streams/.add?ajax=1', json_body=body, headers=env.rc.bearer())


@action('create mps without periods')
def _(env, I, T):
    body = _mps_body(I, T, 'mpsd', [])
    return _req(env, 'PUT', '/api/multi-period-streams/.add?ajax=1', json_body=body, headers=env.rc.bearer())


@action('create mps with an existing name (mpsa)')
def _(env, I, T):
    body = _mps_body(I, T, 'mpsa', [('a1', 'synirr', 'PT0S', 'PT4S', [1], None)])
    return _req(env, 'PUT', '/api/multi-period-streams/.add?ajax=1', json_body=body, headers=env.rc.bearer())


@action('edit mpsa: retarget first period to synenc, drop a track, rename', True)
def _(env, I, T):
    cur = _mpsa_periods(env)
    if cur is None:
        return _req(env, 'POST', '/api/multi-period-streams/mpsa?ajax=1', json_body=_mps_body(I, T, 'mpsa', []), headers=env.rc.bearer())
    pk, periods = cur
    ps = []
    for i, (ppk, pid, d) in enumerate(periods):
        ps.append((pid, 'synenc' if i == 0 else (d or 'synirr'), 'PT0S', 'PT3S', [1], ppk))
    body = _mps_body(I, T, 'mpsa2', ps, pk=pk, title='renamed mps')
    return _req(env, 'POST', '/api/multi-period-streams/mpsa?ajax=1', json_body=body, headers=env.rc.bearer())


@action('edit mpsa: no periods')
def _(env, I, T):
    cur = _mpsa_periods(env)
    body = _mps_body(I, T, 'mpsa', [], pk=cur[0] if cur else None)
    return _req(env, 'POST', '/api/multi-period-streams/mpsa?ajax=1', json_body=body, headers=env.rc.bearer())


@action('delete mpsa', True)
def _(env, I, T):
    return _req(env, 'DELETE', f'/api/multi-period-streams/mpsa?ajax=1&csrf_token={T["streams"]}', headers=env.rc.bearer())


@action('delete non-existing mps')
def _(env, I, T):
    return _req(env, 'DELETE', f'/api/multi-period-streams/nosuch?ajax=1&csrf_token={T["streams"]}', headers=env.rc.bearer())


# ---------------------------------------------------------------------------
def rows(env):
    """{table: {pk: dict(col -> value)}} straight from SQLite."""
    w = env.w
    out = {}
    with w.appctx():
        raw = w.models.db.engine.raw_connection()
        cur = raw.driver_connection.cursor()
        cur.execute("select name from sqlite_master where type='table' and name not like 'sqlite_%'")
        for (t,) in cur.fetchall():
            if t in ('Token', 'alembic_version'):
                continue
            cur.execute(f'select * from "{t}"')
            cols = [d[0] for d in cur.description]
            tab = {}
            for r in cur.fetchall():
                d = dict(zip(cols, r))
                key = d['pk'] if 'pk' in d else (d.get('media_pk'), d.get('key_pk'))
                tab[key] = d
            out[t] = tab
        cur.close()
        w.models.db.session.remove()
    return out


def canon(env, R=None):
    R = R or rows(env)
    h = hashlib.blake2b(digest_size=12)
    for t in sorted(R):
        for k in sorted(R[t], key=repr):
            h.update(repr((t, sorted((c, v) for c, v in R[t][k].items() if c not in ('created', 'last_login')))).encode())
    for k, v in sorted(mgmt.blob_listing(env.w).items()):
        h.update(f'{k}={v}'.encode())
    return h.digest()


def invariants(env, R, bad):
    streams, files, blobs = R.get('Stream', {}), R.get('media_file', {}), R.get('Blob', {})
    keys, links = R.get('key', {}), R.get('mediafile_keys', {})
    mps, periods, adps, ctypes = R.get('mp_stream', {}), R.get('period', {}), R.get('adaptation_set', {}), R.get('content_type', {})
    listing = mgmt.blob_listing(env.w)
    for pk, mf in files.items():
        if mf['stream'] not in streams:
            bad('dangling|media_file.stream', f'media_file {mf["name"]} (pk {pk}) references missing stream {mf["stream"]}')
        if mf['blob'] not in blobs:
            bad('dangling|media_file.blob', f'media_file {mf["name"]} (pk {pk}) references missing blob {mf["blob"]}')
        elif mf['stream'] in streams:
            path = f'{streams[mf["stream"]]["directory"]}/{blobs[mf["blob"]]["filename"]}'
            if path not in listing:
                bad('blob-file-missing', f'media_file {mf["name"]}: blob file {path} is not on disk')
            else:
                # "every media file has its blob": the row describes the file that is there
                raw = (env.w.blob_folder / path).read_bytes()
                b = blobs[mf['blob']]
                if len(raw) != b['size'] or hashlib.sha1(raw).hexdigest() != b['sha1_hash']:
                    bad('blob-row-stale', f'media_file {mf["name"]}: the Blob row says {b["size"]} bytes sha1 {b["sha1_hash"][:12]}, '
                        f'the file {path} has {len(raw)} bytes sha1 {hashlib.sha1(raw).hexdigest()[:12]}')
    for (mpk, kpk) in links:
        if mpk not in files:
            bad('dangling|mediafile_keys.media', f'key link ({mpk},{kpk}) references a missing media file')
        if kpk not in keys:
            bad('dangling|mediafile_keys.key', f'key link ({mpk},{kpk}) references a missing key')
    for pk, e in R.get('media_file_error', {}).items():
        if e['media_pk'] not in files:
            bad('dangling|media_file_error.media', f'error row {pk} references missing media file {e["media_pk"]}')
    for pk, p in periods.items():
        if p['stream_pk'] not in streams:
            bad('dangling|period.stream', f'period {p["pid"]} (pk {pk}) references missing stream {p["stream_pk"]}')
        if p['parent_pk'] not in mps:
            bad('dangling|period.parent', f'period {p["pid"]} (pk {pk}) references missing multi-period stream {p["parent_pk"]}')
    for pk, a in adps.items():
        if a['period_pk'] not in periods:
            bad('dangling|adaptation_set.period', f'adaptation_set {pk} references missing period {a["period_pk"]}')
        if a['content_type_pk'] not in ctypes:
            bad('dangling|adaptation_set.content_type', f'adaptation_set {pk} references missing content type')

    def unique(name, values):
        seen = set()
        for v in values:
            if v in seen:
                bad(f'duplicate|{name}', f'{name} {v!r} occurs twice')
            seen.add(v)
    unique('stream.directory', [s['directory'] for s in streams.values()])
    unique('media_file.name', [m['name'] for m in files.values()])
    unique('blob.filename', [b['filename'] for b in blobs.values()])
    # one row per key id, however it was spelt when it was added
    unique('key.hkid', [k['hkid'].lower().replace('-', '').removeprefix('0x') for k in keys.values()])
    unique('mp_stream.name', [m['name'] for m in mps.values()])
    unique('period.(parent,pid)', [(p['parent_pk'], p['pid']) for p in periods.values()])
    unique('adaptation_set.(period,track)', [(a['period_pk'], a['track_id']) for a in adps.values()])
    for pk, s in streams.items():
        if s['timing_reference']:
            try:
                ref = json.loads(s['timing_reference'])
            except Exception:
                bad('timing-ref-unreadable', f'stream {s["directory"]}: {s["timing_reference"]!r}')
                continue
            names = {m['name'] for m in files.values() if m['stream'] == pk}
            if ref.get('media_name') not in names:
                bad('timing-ref-foreign', f'stream {s["directory"]}: timing reference {ref.get("media_name")!r} is not a '
                    f'file of that stream (files: {sorted(names)})')


def ownership_closure(R, kind, pk):
    """Rows that a deletion of (kind, pk) owns, from the pre-state."""
    out = set()
    if kind == 'stream':
        out.add(('Stream', pk))
        for fpk, mf in R.get('media_file', {}).items():
            if mf['stream'] == pk:
                out |= ownership_closure(R, 'media', fpk)
        # a Period can not exist without its Stream (mandatory reference): it goes with either of its two parents,
        # the multi-period stream itself is shared and stays
        for ppk, p in R.get('period', {}).items():
            if p['stream_pk'] == pk:
                out.add(('period', ppk))
                for apk, a in R.get('adaptation_set', {}).items():
                    if a['period_pk'] == ppk:
                        out.add(('adaptation_set', apk))
    elif kind == 'media':
        mf = R['media_file'][pk]
        out.add(('media_file', pk))
        out.add(('Blob', mf['blob']))
        for k in R.get('mediafile_keys', {}):
            if k[0] == pk:
                out.add(('mediafile_keys', k))
        for epk, e in R.get('media_file_error', {}).items():
            if e['media_pk'] == pk:
                out.add(('media_file_error', epk))
    elif kind == 'mps':
        out.add(('mp_stream', pk))
        for ppk, p in R.get('period', {}).items():
            if p['parent_pk'] == pk:
                out.add(('period', ppk))
                for apk, a in R.get('adaptation_set', {}).items():
                    if a['period_pk'] == ppk:
                        out.add(('adaptation_set', apk))
    elif kind == 'key':
        out.add(('key', pk))
        for k in R.get('mediafile_keys', {}):
            if k[1] == pk:
                out.add(('mediafile_keys', k))
    return out


DELETES = {
    'delete stream synirr (POST form)': ('stream', lambda I: I['streams'].get('synirr')),
    'delete stream synenc (DELETE ajax)': ('stream', lambda I: I['streams'].get('synenc')),
    'delete stream d1 (DELETE /delete)': ('stream', lambda I: I['streams'].get('d1')),
    'delete media synirr_a1 (DELETE)': ('media', lambda I: I['files'].get('synirr_a1', (None,))[0]),
    'delete media synirr_v1, the timing reference (POST form)': ('media', lambda I: I['files'].get('synirr_v1', (None,))[0]),
    'delete media synenc_v1_enc (DELETE /delete)': ('media', lambda I: I['files'].get('synenc_v1_enc', (None,))[0]),
    'delete the key used by the encrypted files': ('key', lambda I: I['keys'].get('1ab45440532c439994dc5c5ad9584bac')),
    'delete the key used by the encrypted files (POST form)': ('key', lambda I: I['keys'].get('1ab45440532c439994dc5c5ad9584bac')),
    'delete the unused key (POST form)': ('key', lambda I: I['keys'].get('00112233445566778899aabbccddeeff')),
    'delete mpsa': ('mps', lambda I: I['mps'].get('mpsa')),
}


def _sub_digest(R, listing, spk):
    """Everything the service reads to serve one stream: its row, files, blobs, key links + keys, error rows, disk files."""
    s = R['Stream'].get(spk)
    if s is None:
        return ('missing', spk)
    files = {k: v for k, v in R.get('media_file', {}).items() if v['stream'] == spk}
    blobs = {v['blob']: R['Blob'].get(v['blob']) for v in files.values()}
    links = sorted(k for k in R.get('mediafile_keys', {}) if k[0] in files)
    keys = {k[1]: R['key'].get(k[1]) for k in links}
    errs = {k: v for k, v in R.get('media_file_error', {}).items() if v['media_pk'] in files}
    disk = sorted((k, v) for k, v in listing.items() if k.startswith(s['directory'] + '/'))

    def strip(d):
        return sorted((k, sorted((c, x) for c, x in (v or {}).items() if c != 'created')) for k, v in d.items())
    return hashlib.blake2b(repr((sorted(s.items()), strip(files), strip(blobs), links, strip(keys), strip(errs), disk)).encode(),
                           digest_size=12).digest()


_memo = {}


def _stream_service(env, s, acc):
    """-> list of (clause, text) for one stream."""
    w = env.w
    out = []
    for mode, tmpl, q in (('vod', 'hand_made', ''), ('live', 'hand_made', '?depth=30'), ('vod', 'manifest_e', ''),
                          ('odvod', 'manifest_vod_aiv', '')):
        u = f'/dash/{mode}/{s["directory"]}/{tmpl}.mpd{q}'
        r = w.get(u)
        acc.count('evaluations')
        acc.outcome(('manifest', r.status))
        if r.status >= 500 or r.exc:
            out.append((f'manifest-5xx|{W.crash_signature(r.exc)}', f'{u} answered {r.status} {W.crash_signature(r.exc)}'))
            continue
        if r.status == 200 and tmpl == 'hand_made':
            try:
                doc = mpd.Mpd(r.body, 'http://localhost' + u.split('?')[0])
            except Exception as e:
                acc.outcome(('manifest-unparsed', type(e).__name__))
                continue
            for rep in list(doc.all_reps())[:3]:
                iu = rep.init_url()
                if iu:
                    ir = w.get(mpd.split_url(iu))
                    acc.count('evaluations')
                    acc.outcome(('init', ir.status))
                    if ir.status >= 500 or ir.exc:
                        out.append((f'init-5xx|{W.crash_signature(ir.exc)}', f'{mpd.split_url(iu)} answered {ir.status}'))
                try:
                    segs = doc.segments(rep, NOW)
                except Exception as e:
                    acc.outcome(('segments-unlisted', type(e).__name__))
                    segs = []
                if segs:
                    sr = w.get(mpd.split_url(segs[0]['url']))
                    acc.count('evaluations')
                    acc.outcome(('media', sr.status))
                    if sr.status >= 500 or sr.exc:
                        out.append((f'media-5xx|{W.crash_signature(sr.exc)}',
                                    f'{mpd.split_url(segs[0]["url"])} answered {sr.status}'))
    return out


KNOWN_UPLOADS = {'upl_v9': (UP_V, UP_V2), 'upl_a9': (UP_A,), 'upl_v9_enc': (UP_E,), 'upl_bad': (UP_BAD,)}


def _stream_readback(env, R, s, spk, acc):
    """Uploaded files are served back byte-exactly through the on-demand range route."""
    out = []
    for mf in R.get('media_file', {}).values():
        if mf['name'] not in KNOWN_UPLOADS or mf['stream'] != spk or mf['blob'] not in R['Blob']:
            continue
        ext = 'm4a' if mf['name'].startswith('upl_a') else 'm4v'
        u = f'/dash/odvod/{s["directory"]}/{mf["name"]}.{ext}'
        size = R['Blob'][mf['blob']]['size']
        r = env.w.get(u, headers={'Range': f'bytes=0-{size - 1}'})
        acc.count('evaluations')
        acc.outcome(('readback', r.status, mf['rep'] is not None))
        if r.status >= 500 or r.exc:
            out.append((f'readback-5xx|{W.crash_signature(r.exc)}', f'{u} answered {r.status}'))
        elif r.status in (200, 206) and r.body not in KNOWN_UPLOADS[mf['name']]:
            out.append(('readback-differs', f'{u}: the {len(r.body)} bytes served differ from every upload made under '
                        f'that name'))
        elif r.status in (200, 206):
            # ... and they are the bytes of the upload that is there now (the blob file), not of one it replaced
            p = env.w.blob_folder / s['directory'] / R['Blob'][mf['blob']]['filename']
            if p.exists() and p.read_bytes() != r.body:
                out.append(('readback-stale', f'{u}: the bytes served are those of an earlier upload under that name, the '
                            f'blob file holds the later one'))
        elif mf['rep'] is not None and r.status not in (200, 206):
            out.append(('readback-refused', f'{u}: an uploaded and indexed file is answered {r.status}'))
    return out


def service_up(env, R, bad, acc):
    """Every listed stream / mps serves its manifests or fails with a clean 4xx; first init+media too; read-back.
    Memoised on everything the service reads for that stream (sound: the server is deterministic at a fixed clock)."""
    listing = mgmt.blob_listing(env.w)
    digests = {}
    for spk, s in R.get('Stream', {}).items():
        dg = digests[spk] = _sub_digest(R, listing, spk)
        if ('s', dg) not in _memo:
            _memo[('s', dg)] = _stream_service(env, s, acc) + _stream_readback(env, R, s, spk, acc)
        else:
            acc.count('memo_hits')
        for clause, text in _memo[('s', dg)]:
            bad(clause, text)
    for mpk, m in R.get('mp_stream', {}).items():
        periods = {k: v for k, v in R.get('period', {}).items() if v['parent_pk'] == mpk}
        adps = {k: v for k, v in R.get('adaptation_set', {}).items() if v['period_pk'] in periods}
        key = ('m', repr((sorted(m.items()), sorted((k, sorted(v.items())) for k, v in periods.items()),
                          sorted((k, sorted(v.items())) for k, v in adps.items()),
                          sorted((p['stream_pk'], digests.get(p['stream_pk'])) for p in periods.values()))))
        if key not in _memo:
            out = []
            for mode in ('vod', 'live'):
                u = f'/mps/{mode}/{m["name"]}/hand_made.mpd' + ('?depth=20' if mode == 'live' else '')
                r = env.w.get(u)
                acc.count('evaluations')
                acc.outcome(('mps-manifest', r.status))
                if r.status >= 500 or r.exc:
                    out.append((f'mps-manifest-5xx|{W.crash_signature(r.exc)}',
                                f'{u} answered {r.status} {W.crash_signature(r.exc)}'))
                    continue
                if r.status == 200:
                    try:
                        doc = mpd.Mpd(r.body, 'http://localhost' + u.split('?')[0])
                    except Exception as e:
                        acc.outcome(('mps-manifest-unparsed', type(e).__name__))
                        continue
                    for per in doc.periods[:2]:
                        for rep in per.reps[:1]:
                            for uu in (rep.init_url(),):
                                if not uu:
                                    continue
                                ir = env.w.get(mpd.split_url(uu))
                                acc.count('evaluations')
                                acc.outcome(('mps-init', ir.status))
                                if ir.status >= 500 or ir.exc:
                                    out.append((f'mps-init-5xx|{W.crash_signature(ir.exc)}',
                                                f'{mpd.split_url(uu)} answered {ir.status}'))
            _memo[key] = out
        else:
            acc.count('memo_hits')
        for clause, text in _memo[key]:
            bad(clause, text)


def byte_exact(env, R, bad, acc):
    return None      # folded into service_up (memoised per stream)


# ---------------------------------------------------------------------------
def apply(env, name, fn, acc, check_all=True):
    """Apply one action to the current store; return (violations as list, post rows)."""
    viol = []
    W.set_now(NOW)
    I = env.lookup()
    pre = rows(env)
    pre_canon = canon(env, pre)
    T = env.tokens()
    r = fn(env, I, T)
    acc.count('transitions')
    acc.count('evaluations')
    post = rows(env)

    def bad(clause, text):
        viol.append((f'C17|{clause}', f'after "{name}" (answered {r.status if r is not None else None}): {text}'))
    if r is not None and (r.status >= 500 or r.exc is not None):
        # the statement of C17 does not speak of the status of the operation itself (C16 does: props/c16.py carries
        # these requests); here the store must stay consistent and the service up, which is judged below
        acc.outcome(('operation-5xx', name, W.crash_signature(r.exc)))
    invariants(env, post, bad)
    if name in DELETES:
        kind, getpk = DELETES[name]
        pk = getpk(I)
        table = {'stream': 'Stream', 'media': 'media_file', 'mps': 'mp_stream', 'key': 'key'}[kind]
        if pk is not None and pk in pre.get(table, {}) and pk not in post.get(table, {}):
            want = ownership_closure(pre, kind, pk)
            gone = set()
            for t in pre:
                for k in pre[t]:
                    if k not in post.get(t, {}):
                        gone.add((t, k))
            extra = gone - want
            left = want - gone
            if extra:
                bad(f'delete-removed-shared|{kind}|' + ','.join(sorted({t for t, _ in extra})),
                    f'deleting the {kind} also removed rows it does not own: {sorted(extra, key=repr)[:5]}')
            if left:
                bad(f'delete-left-owned|{kind}|' + ','.join(sorted({t for t, _ in left})),
                    f'deleting the {kind} left rows it owns behind: {sorted(left, key=repr)[:5]}')
    if name.startswith('create mps'):
        # creating an object is no deletion at all and owns nothing that exists already: a row that was there before
        # is still there, and the rows of other (multi-period) streams are as they were
        gone, differs = set(), set()
        for t in ('Stream', 'media_file', 'Blob', 'mp_stream', 'period', 'adaptation_set', 'key', 'mediafile_keys'):
            for k, v in pre.get(t, {}).items():
                if k not in post.get(t, {}):
                    gone.add((t, k))
                elif post[t][k] != v:
                    differs.add((t, k))
        if gone:
            bad('create-removed-rows|' + ','.join(sorted({t for t, _ in gone})),
                f'creating an object removed existing rows: {sorted(gone, key=repr)[:5]}')
        if differs:
            bad('create-changed-rows|' + ','.join(sorted({t for t, _ in differs})),
                f'creating an object changed existing rows: {sorted(differs, key=repr)[:5]}')
    changed = pre_canon != canon(env, post)
    if check_all:
        service_up(env, post, bad, acc)
    return viol, post, changed


def explore(arg):
    first, depth, names, tier = arg
    env = Env.get()
    acc = core.Acc()
    table = {n: fn for n, _, fn in ACTIONS}
    env.w.restore(env.snap0)
    env.rc.cookies_restore(env.cookies)
    seen = {}
    orphan_files = 0

    def record(hist, viol):
        for sig, text in viol:
            acc.violation(sig, f'history {list(hist)}: {text}', {'history': list(hist)})

    # level 1
    viol, post, changed = apply(env, first, table[first], acc)
    record((first,), viol)
    key = canon(env, post)
    acc.state(key)
    if changed:
        acc.nontriv(((first,),))
    seen[key] = True
    frontier = [((first,), env.w.snapshot(), env.rc.cookies_snapshot(), bool(viol))]
    for level in range(2, depth + 1):
        nxt = []
        for hist, snap, cookies, had_violation in frontier:
            for name in names(level):
                env.w.restore(snap)
                env.rc.cookies_restore(cookies)
                h = hist + (name,)
                viol, post, changed = apply(env, name, table[name], acc, check_all=False)
                key = canon(env, post)
                new = key not in seen
                if new:
                    seen[key] = True
                    acc.state(key)
                    # the expensive checks once per distinct state
                    extra = []

                    def bad(clause, text):
                        extra.append((f'C17|{clause}', f'after "{name}": {text}'))
                    service_up(env, post, bad, acc)
                    viol = viol + extra
                    if level < depth:
                        nxt.append((h, env.w.snapshot(), env.rc.cookies_snapshot(), bool(viol)))
                    elif len(seen) % (7 if tier == 'quick' else 3) == 0:
                        # harness self-check: the snapshot/restore path must equal a replay of the history from the
                        # initial store (a divergence would make every verdict of this explorer meaningless)
                        env.w.restore(env.snap0)
                        env.rc.cookies_restore(env.cookies)
                        for n2 in h:
                            apply(env, n2, table[n2], core.Acc(), check_all=False)
                        R2 = rows(env)
                        if canon(env, R2) != key:
                            diff = []
                            for t in sorted(set(post) | set(R2)):
                                a, b = post.get(t, {}), R2.get(t, {})
                                for k in sorted(set(a) | set(b), key=repr):
                                    if a.get(k) != b.get(k):
                                        da, db_ = a.get(k) or {}, b.get(k) or {}
                                        diff.append((t, k, {c: (da.get(c), db_.get(c)) for c in set(da) | set(db_)
                                                            if da.get(c) != db_.get(c)}))
                            raise core.HarnessError(f'C17: replaying {list(h)} from the initial store differs from the '
                                                    f'snapshot path: rows {diff[:6]!r}; blob listing now '
                                                    f'{sorted(mgmt.blob_listing(env.w).items())!r}')
                        acc.count('restart_checks')
                if changed:
                    acc.nontriv((h,))
                record(h, viol)
        frontier = nxt
    acc.count('traces', len(seen))
    env.w.restore(env.snap0)
    return acc


def names_quick(level):
    if level == 2:
        return [n for n, _, _ in ACTIONS]
    return [n for n, c, _ in ACTIONS if c]


def names_thorough(level):
    if level <= 3:
        return [n for n, _, _ in ACTIONS]
    return [n for n, c, _ in ACTIONS if c]


def run(ctx):
    depth = 3 if ctx.quick else 4
    items = []
    for n, c, _ in ACTIONS:
        items.append((n, depth, names_quick if ctx.quick else names_thorough, ctx.tier))
    ctx.merge_all(ctx.pmap(explore, items))
    ctx.extra.update(actions=len(ACTIONS), core_actions=sum(1 for _, c, _ in ACTIONS if c), depth=depth,
                     action_names=[n for n, _, _ in ACTIONS],
                     levels_completed=(f'all histories of length <= 2 over {len(ACTIONS)} actions and length 3 with a core '
                                       f'alphabet at the last step' if ctx.quick else
                                       f'all histories of length <= 3 over {len(ACTIONS)} actions and length 4 with a core '
                                       f'alphabet at the last step') + '; per first action, de-duplicated on store content')


def replay(record):
    env = Env.get()
    acc = core.Acc()
    table = {n: fn for n, _, fn in ACTIONS}
    env.w.restore(env.snap0)
    env.rc.cookies_restore(env.cookies)
    out = []
    hist = record['history']
    for i, name in enumerate(hist):
        viol, post, changed = apply(env, name, table[name], acc, check_all=(i == len(hist) - 1))
        if i == len(hist) - 1:
            out += viol
    env.w.restore(env.snap0)
    return out
