"""C14 - timed events are delivered exactly once and decode to their schedule.

Bounded-exhaustive product over event schedules (type, start, interval, count,
duration, event timescale, emsg version, inband flag) x segment layouts x runs
of consecutive segments (every vod segment in order; live runs of three loops
at several clock phases); emsg boxes are extracted with the independent box
reader, SCTE-35 payloads with the independent decoder and CRC; plus the
SCTE-35 codec round trip over boundary values of every field width.
"""
from __future__ import annotations

import base64
import datetime
import itertools
from fractions import Fraction

from mc import bmff, core, crawl, mpd, scte35, world as W
from mc.explorer import deviation_vectors

ID = 'C14'
LEVEL = 'model_checking'
PREFORK_WORLD = {}
RULE = ('state = (stream, mode, clock, schedule vector, segment of the run); every vector of the stated levels x every '
        'segment of the run; non-trivial = a segment (or manifest EventStream) for which the schedule places at least '
        'one event and whose event boxes were extracted and compared')
ASSUMPTIONS = [
    'event k has instant (start + k x interval) / timescale; it belongs to the segment with tfdt/ts <= instant < '
    '(tfdt + duration)/ts in exact rationals',
    'positive intervals only (non-positive intervals belong to C16)',
    'out-of-band schedules with count = 0 are unbounded and cannot be listed; nothing is demanded of the manifest then',
    'SCTE-35: pts = instant in 90 kHz modulo 2^33, break duration = schedule duration in 90 kHz',
    'a version-0 delta that is not a whole number of event ticks (event timescale coarser than the segment start) '
    'cannot be exact: an error below one event tick is accepted there',
]
UTC = datetime.timezone.utc
NOW = datetime.datetime(2024, 3, 1, 12, 0, 3, 500000, tzinfo=UTC)
AST = datetime.datetime(2024, 3, 1, 0, 0, 0, tzinfo=UTC)

DEFAULTS = {'type': 'ping', 'start': 'zero', 'interval': 'seg', 'count': '0', 'timescale': '100', 'version': '0',
            'inband': '1', 'duration': '200', 'program_id': '1620'}
ALPHABET = {
    'type': ['ping', 'scte35', 'ping,scte35'],
    'start': ['zero', 'boundary-1', 'boundary', 'boundary+1', 'mid'],
    'interval': ['quarter', 'half', 'seg', 'seg+1', '3seg'],
    'count': ['0', '1', '2', '3', '7', '600'],
    'timescale': ['1', '100', '90000', 'track', '7'],
    'version': ['0', '1'],
    'inband': ['1', '0'],
    'duration': ['200', '1', '0'],
    'program_id': ['1620', '0', '65535'],
}
LAYOUTS = {'bbb': ('bbb_v7', 240, 4.0), 'synirr': ('synirr_v1', 1000, 2.5)}


def schedule(vec, stream):
    fname, track_ts, seg = LAYOUTS[stream]
    v = dict(DEFAULTS)
    v.update(vec)
    ts = track_ts if v['timescale'] == 'track' else int(v['timescale'])
    boundary = 2 * seg
    start_s = {'zero': Fraction(0), 'mid': Fraction(seg) * Fraction(3, 2), 'boundary': Fraction(boundary),
               'boundary-1': Fraction(boundary) - Fraction(1, ts), 'boundary+1': Fraction(boundary) + Fraction(1, ts)}[v['start']]
    start = int(start_s * ts)
    interval = {'quarter': Fraction(seg) / 4, 'half': Fraction(seg) / 2, 'seg': Fraction(seg),
                'seg+1': Fraction(seg) + Fraction(1, ts), '3seg': Fraction(seg) * 3}[v['interval']]
    interval = max(1, int(interval * ts))
    return {'types': v['type'].split(','), 'start': start, 'interval': interval, 'count': int(v['count']),
            'timescale': ts, 'version': int(v['version']), 'inband': v['inband'] == '1', 'duration': int(v['duration']),
            # 'ping' / 'scte35': only that type travels in the media, the other one is listed in the manifest
            'inband_of': {t: v['inband'] in ('1', t) for t in v['type'].split(',')}, 'program_id': int(v['program_id'])}


def query(sch):
    q = {'events': ','.join(sch['types'])}
    for t in sch['types']:
        q[f'{t}__start'] = str(sch['start'])
        q[f'{t}__interval'] = str(sch['interval'])
        q[f'{t}__count'] = str(sch['count'])
        q[f'{t}__timescale'] = str(sch['timescale'])
        q[f'{t}__version'] = str(sch['version'])
        q[f'{t}__inband'] = '1' if sch['inband_of'][t] else '0'
        q[f'{t}__duration'] = str(sch['duration'])
    if 'scte35' in sch['types'] and sch['program_id'] != 1620:
        q['scte35__program_id'] = str(sch['program_id'])
    return q


def sig(*p):
    return 'C14|' + '|'.join(str(x) for x in p)


SCHEMES = {'ping': 'urn:dash-live:pingpong:2022', 'scte35': 'urn:scte:scte35:2014:xml+bin'}


def expected_in(sch, lo: Fraction, hi: Fraction):
    """event ids k with lo <= instant < hi (seconds, exact)"""
    ts = sch['timescale']
    out = []
    # smallest k with (start + k*i)/ts >= lo
    x = lo * ts - sch['start']
    k = 0 if x <= 0 else int(-(-x // sch['interval']))       # ceil
    while True:
        inst = Fraction(sch['start'] + k * sch['interval'], ts)
        if inst >= hi:
            break
        if sch['count'] and k >= sch['count']:
            break
        if inst >= lo:
            out.append(k)
        k += 1
        if len(out) > 5000:
            break
    return out


def check_scte(acc, bad, sch, k, payload, where):
    try:
        d = scte35.decode(payload)
    except scte35.Bad as e:
        bad(f'scte35-undecodable|{where}', f'event {k}: {e}')
        return
    if not d['crc_valid']:
        bad(f'scte35-crc|{where}', f'event {k}: CRC_32 {d["crc_stored"]:#x} does not match the section')
    si = d.get('splice_insert')
    if si is None or si.get('cancel'):
        bad(f'scte35-command|{where}', f'event {k}: no splice_insert')
        return
    ts = sch['timescale']
    want_pts = ((sch['start'] + k * sch['interval']) * 90000 // ts) & 0x1FFFFFFFF
    want_dur = sch['duration'] * 90000 // ts
    if si['splice_event_id'] != k:
        bad(f'scte35-event-id|{where}', f'event {k}: splice_event_id {si["splice_event_id"]}')
    if si.get('unique_program_id') != sch['program_id']:
        bad(f'scte35-program-id|{where}', f'event {k}: unique_program_id {si.get("unique_program_id")}, requested {sch["program_id"]}')
    st = si.get('splice_time')
    if not st or st['pts'] != want_pts:
        bad(f'scte35-pts|{where}', f'event {k}: pts {st and st["pts"]}, schedule gives {want_pts}')
    bd = si.get('break_duration')
    if not bd or bd['duration'] != want_dur:
        bad(f'scte35-break-duration|{where}', f'event {k}: break duration {bd and bd["duration"]}, schedule gives {want_dur}')


def execute(item):
    stream, mode, vec, phase = item[:4]
    template = item[4] if len(item) > 4 else 'hand_made'
    base = item[5] if len(item) > 5 else None
    w = W.World.shared()
    w.begin_item()
    acc = core.Acc()
    sch = schedule(vec, stream)
    fname, track_ts, seg = LAYOUTS[stream]
    q = query(sch)
    if mode == 'live':
        # $Time$ addressing: with $Number$ and irregular durations two numbers may map to one stored segment
        q.update(start=crawl.iso(AST), depth='120', timeline='1')
        now = AST + datetime.timedelta(seconds=600 + phase)
    else:
        now = NOW
    if base is not None:
        q['base'] = base
    url = crawl.manifest_url(mode, stream, template, q)
    rec = {'stream': stream, 'mode': mode, 'vec': vec, 'phase': phase, 'template': template, 'base': base}
    mixed = len(set(sch['inband_of'].values())) > 1
    tag = f"{'+'.join(sch['types'])}|v{sch['version']}|{'mixed' if mixed else ('inband' if sch['inband'] else 'outband')}"

    def bad(clause, text):
        acc.violation(sig(clause, tag), f'{url} ({mode}, schedule {sch}): {text}', rec)
    W.set_now(now)
    r = w.get(url)
    acc.count('evaluations')
    acc.count('transitions')
    acc.outcome(('manifest', r.status))
    if r.status >= 500 or r.exc:
        bad(f'manifest-5xx|{W.crash_signature(r.exc)}', f'the manifest answered {r.status}')
    if r.status != 200:
        return acc
    try:
        doc = mpd.Mpd(r.body, 'http://localhost' + url.split('?')[0])
    except Exception:
        return acc
    acc.count('traces')
    st = crawl.Stored.fixture(stream)
    # out-of-band: the manifest lists the schedule
    if not all(sch['inband_of'].values()):
        for t in sch['types']:
            if sch['inband_of'][t]:
                continue
            streams = [e for p in doc.periods for e in p.el.findall(mpd.Q + 'EventStream')
                       if e.get('schemeIdUri') == SCHEMES[t]]
            if sch['count'] == 0:
                continue
            if len(streams) != 1:
                bad('eventstream-missing', f'{len(streams)} EventStream elements for {t}')
                continue
            es = streams[0]
            acc.nontriv((stream, template, base, mode, tuple(sorted(vec.items())), 'manifest', t))
            if es.get('timescale') != str(sch['timescale']):
                bad('eventstream-timescale', f'{t}: @timescale={es.get("timescale")}')
            evs = es.findall(mpd.Q + 'Event')
            got = [(e.get('id'), e.get('presentationTime')) for e in evs]
            want = [(str(k), str(sch['start'] + k * sch['interval'])) for k in range(sch['count'])]
            if got != want:
                bad('eventstream-schedule', f'{t}: manifest lists {got[:8]}, schedule is {want[:8]}')
            for e in evs:
                if e.get('duration') != str(sch['duration']):
                    bad('eventstream-duration', f'{t}: Event@duration={e.get("duration")}')
                    break
            if t == 'scte35':
                for k, e in enumerate(evs):
                    b = [x for x in e.iter() if isinstance(x.tag, str) and x.tag.endswith('}Binary')]
                    if len(b) != 1:
                        bad('scte35-binary-missing', f'event {k}: {len(b)} scte35:Binary elements')
                        continue
                    try:
                        payload = base64.b64decode((b[0].text or '').strip(), validate=True)
                    except Exception as ex:
                        bad('scte35-binary-base64', f'event {k}: {ex}')
                        continue
                    check_scte(acc, bad, sch, k, payload, 'manifest')
    # in-band: walk the video run
    vrep = None
    for rep in doc.all_reps():
        if rep.id == fname:
            vrep = rep
    if vrep is None:
        return acc
    segs = doc.segments(vrep, now)
    seen = {t: [] for t in sch['types']}
    run_lo = run_hi = None
    f = st.files[fname]
    prev_end = None
    for seg in segs:
        sr = w.get(mpd.split_url(seg['url']))
        acc.count('evaluations')
        acc.count('transitions')
        acc.state((stream, template, base, mode, phase, tuple(sorted(vec.items())), seg['n']))
        if sr.status >= 500 or sr.exc:
            # the segment whose interval contains scheduled events is not delivered at all
            bad(f'segment-5xx|{W.crash_signature(sr.exc)}', f'$Number$={seg["n"]} answered {sr.status}')
        if sr.status != 200:
            acc.outcome(('segment', sr.status))
            acc.count(f'segment_status_{sr.status}')
            acc.count(f'segment_not_200_{mode}')
            prev_end = None
            continue
        acc.count(f'segment_200_{mode}')
        try:
            frag = bmff.Fragment(sr.body, f['init'])
        except bmff.Malformed as e:
            bad('malformed', f'$Number$={seg["n"]}: {e}')
            continue
        S = frag.tfdt['base_media_decode_time']
        D = frag.duration
        lo, hi = Fraction(S, track_ts), Fraction(S + D, track_ts)
        if run_lo is None:
            run_lo = lo
        run_hi = hi
        for t in sch['types']:
            boxes = [e for e in frag.emsgs if e['scheme_id_uri'] == SCHEMES[t]]
            want = expected_in(sch, lo, hi) if sch['inband_of'][t] else []
            if want:
                acc.nontriv((stream, template, base, mode, phase, tuple(sorted(vec.items())), seg['n'], t))
            got = [e['id'] for e in boxes]
            if got != want:
                extra = [k for k in got if k not in want]
                missing = [k for k in want if k not in got]
                cls = 'extra-beyond-count' if extra and sch['count'] and all(k >= sch['count'] for k in extra) else (
                    'extra' if extra else ('missing' if missing else 'order'))
                bad(f'segment-events|{cls}', f'$Number$={seg["n"]} [{float(lo)}, {float(hi)}) s carries {t} event ids {got}, '
                    f'schedule places {want}')
            seen[t] += got
            for e in boxes:
                k = e['id']
                inst = Fraction(sch['start'] + k * sch['interval'], sch['timescale'])
                if e['timescale'] != sch['timescale']:
                    bad('emsg-timescale', f'event {k}: emsg timescale {e["timescale"]}')
                want_ver = 1 if (t == 'scte35') else sch['version']
                if e['version'] != want_ver:
                    bad('emsg-version', f'event {k}: emsg version {e["version"]}, requested {want_ver}')
                if e['version'] == 1:
                    res = Fraction(e['presentation_time'], e['timescale'])
                else:
                    res = lo + Fraction(e['presentation_time_delta'], e['timescale'])
                exact_delta = (inst - lo) * e['timescale']
                representable = e['version'] == 1 or exact_delta.denominator == 1
                if (representable and res != inst) or (not representable and abs(res - inst) >= Fraction(1, e['timescale'])):
                    bad(f'emsg-instant|v{e["version"]}', f'event {k} in $Number$={seg["n"]}: resolves to {float(res)} s, '
                        f'schedule instant is {float(inst)} s')
                if e['event_duration'] != sch['duration']:
                    bad('emsg-duration', f'event {k}: event_duration {e["event_duration"]}')
                if t == 'scte35':
                    check_scte(acc, bad, sch, k, e['message_data'], 'emsg')
                elif e['message_data'] not in (b'ping', b'pong') or (e['message_data'] == b'ping') != (k % 2 == 0):
                    bad('ping-payload', f'event {k}: payload {e["message_data"]!r}')
    if any(sch['inband_of'].values()) and run_lo is not None:
        for t in sch['types']:
            ids = seen[t]
            if len(ids) != len(set(ids)):
                dup = sorted({k for k in ids if ids.count(k) > 1})
                bad('event-delivered-twice', f'{t}: event ids {dup} appear in more than one segment of the run')
    return acc


# ---------------------------------------------------------------------------
def codec_roundtrip(arg):
    lo_i, hi_i = arg
    from dashlive.scte35.binarysignal import BinarySignal
    from dashlive.scte35.splice_insert import SpliceInsert
    from dashlive.scte35 import descriptors
    from dashlive.utils.buffered_reader import BufferedReader
    acc = core.Acc()
    A = {
        'pts': [None, 0, 1, 2 ** 32, 2 ** 33 - 1],
        'event_id': [0, 1, 2 ** 31, 2 ** 32 - 1],
        'program_id': [0, 1, 1620, 65535],
        'avail': [(0, 0), (1, 1), (255, 255), (7, 200)],
        'duration': [None, (0, True), (1, False), (2 ** 33 - 1, True), (540000, False)],
        'out': [True, False],
        'descs': [0, 1, 2],
        'pts_adjustment': [0, 1, 2 ** 33 - 1],
        'tier': [0xFFF, 0, 1],
        'seg_duration': [0, None, 2 ** 40 - 1],
    }
    names = list(A)
    combos = list(itertools.product(*[range(len(A[n])) for n in names]))
    for combo in combos[lo_i:hi_i]:
        v = {n: A[n][i] for n, i in zip(names, combo)}
        acc.count('evaluations')
        rec = {'kind': 'codec', 'v': {k: (list(x) if isinstance(x, tuple) else x) for k, x in v.items()}}
        try:
            si_kw = dict(out_of_network_indicator=v['out'], splice_event_id=v['event_id'], unique_program_id=v['program_id'],
                         avail_num=v['avail'][0], avails_expected=v['avail'][1])
            if v['pts'] is not None:
                si_kw['splice_time'] = {'pts': v['pts']}
                si_kw['program_splice_flag'] = True
            else:
                si_kw['splice_time'] = None
                si_kw['splice_immediate_flag'] = True
                si_kw['program_splice_flag'] = True
            if v['duration'] is not None:
                si_kw['break_duration'] = {'duration': v['duration'][0], 'auto_return': v['duration'][1]}
            else:
                si_kw['break_duration'] = None
            descs = []
            for i in range(v['descs']):
                descs.append(descriptors.SegmentationDescriptor(
                    segmentation_event_id=[0, 2 ** 32 - 1][i], segmentation_duration=v['seg_duration'],
                    segmentation_type=descriptors.SegmentationTypeId.PROVIDER_PLACEMENT_OP_START + i))
            sig_ = BinarySignal(splice_insert=SpliceInsert(**si_kw), descriptors=descs,
                                pts_adjustment=v['pts_adjustment'], tier=v['tier'])
            data = sig_.encode()
        except Exception as e:
            acc.violation(sig('codec', 'encode-raises', type(e).__name__), f'{v}: {type(e).__name__}: {e}', rec)
            continue
        acc.state(('codec', combo))
        acc.nontriv(('codec', combo))
        cls = 'immediate' if v['pts'] is None else 'timed'
        try:
            d = scte35.decode(bytes(data))
        except scte35.Bad as e:
            acc.violation(sig('codec', 'own-decoder-rejects', cls), f'{v}: {e}', rec)
            continue
        si = d['splice_insert']
        problems = []
        if not d['crc_valid']:
            problems.append('crc')
        if si['splice_event_id'] != v['event_id']:
            problems.append('event_id')
        if v['pts'] is not None and (not si.get('splice_time') or si['splice_time']['pts'] != v['pts']):
            problems.append('pts')
        if v['pts'] is None and si.get('splice_time'):
            problems.append('unexpected-splice-time')
        if (v['duration'] is None) != ('break_duration' not in si):
            problems.append('duration-flag')
        elif v['duration'] is not None and (si['break_duration']['duration'], si['break_duration']['auto_return']) != v['duration']:
            problems.append('break_duration')
        if si['unique_program_id'] != v['program_id'] or (si['avail_num'], si['avails_expected']) != v['avail']:
            problems.append('program/avail')
        if si['out_of_network'] != v['out']:
            problems.append('out_of_network')
        if d['pts_adjustment'] != v['pts_adjustment'] or d['tier'] != v['tier']:
            problems.append('pts_adjustment/tier')
        if len(d['descriptors']) != v['descs']:
            problems.append('descriptors')
        for i, dd in enumerate(d['descriptors'][:v['descs']]):
            # encoding then parsing is the identity on values: a duration of 0 is a duration, None is its absence
            if dd.get('segmentation_event_id') != [0, 2 ** 32 - 1][i]:
                problems.append('segmentation_event_id')
            if dd.get('segmentation_duration') != v['seg_duration']:
                problems.append('segmentation_duration')
        if problems:
            acc.violation(sig('codec', 'encoded-fields', cls, problems[0]), f'{v}: own decoder disagrees on {problems}: {si}', rec)
            continue
        try:
            parsed = BinarySignal.parse(BufferedReader(None, data=bytes(data)), size=len(data))
            again = BinarySignal(**parsed).encode()
        except Exception as e:
            acc.violation(sig('codec', 'parse-raises', cls, type(e).__name__), f'{v}: {type(e).__name__}: {e}', rec)
            continue
        if bytes(again) != bytes(data):
            acc.violation(sig('codec', 'parse-encode-differs', cls), f'{v}: parse(encode(x)) re-encodes differently', rec)
        if not parsed.get('crc_valid'):
            acc.violation(sig('codec', 'own-crc-rejected', cls), f'{v}: parser reports crc_valid False', rec)
    return acc


N_CODEC = 5 * 4 * 4 * 4 * 5 * 2 * 3 * 3 * 3 * 3


def codec_special(_):
    """splice_event_cancel_indicator and time_signal / splice_null commands."""
    from dashlive.scte35.binarysignal import BinarySignal
    from dashlive.scte35.splice_insert import SpliceInsert
    from dashlive.utils.buffered_reader import BufferedReader
    acc = core.Acc()
    cases = []
    for eid in (0, 1, 2 ** 32 - 1):
        cases.append(('cancel', dict(splice_insert=SpliceInsert(splice_event_id=eid, splice_event_cancel_indicator=True,
                                                                splice_time=None, break_duration=None,
                                                                unique_program_id=0, avail_num=0, avails_expected=0))))
    for pts in (0, 1, 2 ** 33 - 1):
        cases.append(('time_signal', dict(time_signal={'pts': pts})))
    cases.append(('splice_null', dict()))
    # every segmentation type id (the sub-segment bytes exist for 0x34, 0x36, 0x38, 0x3A only), with and without a
    # duration, delivery restrictions, a upid of each length class
    from dashlive.scte35 import descriptors
    for typ in range(256):
        for variant in range(4):
            dkw = dict(segmentation_event_id=7 + typ, segmentation_type=typ, segment_num=3, segments_expected=9,
                       segmentation_duration=[None, 0, 900000, 2 ** 40 - 1][variant])
            if typ in (0x34, 0x36, 0x38, 0x3A):
                dkw.update(sub_segment_num=[1, 0, 255, 2][variant], sub_segments_expected=[2, 0, 255, 9][variant])
            if variant == 1:
                dkw.update(delivery_not_restricted_flag=False, web_delivery_allowed_flag=False, no_regional_blackout_flag=True,
                           archive_allowed_flag=False, device_restrictions=2)
            if variant >= 2:
                dkw.update(segmentation_upid_type=[0, 0, 0x09, 0x0C][variant], segmentation_upid=[None, None, b'ADI:x.y/z', bytes(range(200))][variant])
            cases.append((f'segmentation-type-{typ:#04x}-v{variant}',
                          dict(time_signal={'pts': 90000 + typ}, descriptors=[('seg', dkw)])))
    # component mode (program_segmentation_flag = 0): 0, 1 and 2 components
    for ncomp in (0, 1, 2):
        comps = [{'component_tag': 1, 'pts_offset': 90000}, {'component_tag': 255, 'pts_offset': 2 ** 33 - 1}][:ncomp]
        cases.append((f'segmentation-components-{ncomp}',
                      dict(time_signal={'pts': 5}, descriptors=[('seg', dict(segmentation_event_id=9, segmentation_type=0x30,
                                                                         program_segmentation_flag=False, components=comps))])))
    for name, kw in cases:
        acc.count('evaluations')
        rec = {'kind': 'codec-special', 'case': name}
        if kw.get('descriptors'):
            try:
                kw = dict(kw, descriptors=[descriptors.SegmentationDescriptor(**d) for _, d in kw['descriptors']])
            except Exception as e:
                acc.outcome(('descriptor-refused', type(e).__name__))
                continue
        try:
            data = bytes(BinarySignal(**kw).encode())
        except Exception as e:
            acc.violation(sig('codec', 'encode-raises', name, type(e).__name__), f'{name}: {type(e).__name__}: {e}', rec)
            continue
        acc.state(('codec-special', name, data.hex()))
        acc.nontriv(('codec-special', name, data.hex()))
        try:
            d = scte35.decode(data)
            if not d['crc_valid']:
                acc.violation(sig('codec', 'encoded-fields', name, 'crc'), f'{name}: CRC invalid', rec)
            if name == 'cancel' and not d['splice_insert']['cancel']:
                acc.violation(sig('codec', 'encoded-fields', name, 'cancel'), f'{name}: cancel indicator lost', rec)
        except scte35.Bad as e:
            acc.violation(sig('codec', 'own-decoder-rejects', name), f'{name}: {e}', rec)
            continue
        try:
            parsed = BinarySignal.parse(BufferedReader(None, data=data), size=len(data))
            again = bytes(BinarySignal(**parsed).encode())
        except Exception as e:
            acc.violation(sig('codec', 'parse-raises', name, type(e).__name__), f'{name}: parse(encode(x)) raised '
                          f'{type(e).__name__}: {e}', rec)
            continue
        if again != data:
            acc.violation(sig('codec', 'parse-encode-differs', name), f'{name}: {data.hex()} re-encodes as {again.hex()}', rec)
    return acc


def _dispatch(item):
    if item[0] == 'codec-special':
        return codec_special(None)
    return codec_roundtrip(item[1]) if item[0] == 'codec' else execute(item[1])


def plan(tier):
    items = []
    levels = (0, 1, 2) if tier == 'quick' else (0, 1, 2, 3)
    vecs = []
    for lv in levels:
        vecs += list(deviation_vectors(DEFAULTS, ALPHABET, lv))
    for stream in LAYOUTS:
        for v in vecs:
            if stream == 'synirr' and len(v) > (1 if tier == 'quick' else 2):
                continue
            items.append(('run', (stream, 'vod', v, 0)))
            if len(v) <= (1 if tier == 'quick' else 2) and v.get('inband', '1') == '1':
                for phase in ((0, 17.3) if tier == 'quick' else (0, 3.9, 17.3, 39.999)):
                    items.append(('run', (stream, 'live', v, phase)))
                if 'scte35' in v.get('type', 'ping') and stream == 'bbb':
                    # presentation times whose 90 kHz PTS crosses 2^32 (47 722 s) and wraps at 2^33 (95 444 s)
                    for phase in (47722.0 - 600 + 30, 95443.7 - 600 + 30):
                        items.append(('run', (stream, 'live', v, phase)))
    # long schedules: event ids beyond the 8-bit fields of the SCTE-35 avail counters (in-band: a live window that
    # holds events 480..599; out-of-band: the manifest lists all 600)
    for t in ALPHABET['type']:
        items.append(('run', ('bbb', 'live', {'type': t, 'count': '600', 'interval': 'quarter'}, 0)))
        items.append(('run', ('bbb', 'vod', {'type': t, 'count': '600', 'inband': '0'}, 0)))
    # out-of-band schedules need three deviations from the defaults (type, inband=0, a count) before the manifest lists
    # anything: they are enumerated in both tiers
    for t in ALPHABET['type']:
        for count in ('1', '3', '7'):
            for ts in ('100', '90000', '1'):
                for start in ('zero', 'boundary+1'):
                    v = {'type': t, 'inband': '0', 'count': count, 'timescale': ts, 'start': start}
                    vv = {k: x for k, x in v.items() if DEFAULTS.get(k) != x}
                    items.append(('run', ('bbb', 'vod', vv, 0)))
                    # the other template that carries events, and both with absolute URLs instead of BaseURL elements
                    if ts == '100' or tier != 'quick':
                        items.append(('run', ('bbb', 'vod', vv, 0, 'manifest_n', None)))
                        items.append(('run', ('bbb', 'vod', vv, 0, 'manifest_n', '0')))
                        items.append(('run', ('bbb', 'vod', vv, 0, 'hand_made', '0')))
    # both event types at once, one in the media and one in the manifest (and a schedule that lists something)
    for only in ('ping', 'scte35'):
        for count in ('3', '7'):
            for mode, phase in (('vod', 0), ('live', 17.3)):
                for tmpl in ('hand_made', 'manifest_n'):
                    items.append(('run', ('bbb', mode, {'type': 'ping,scte35', 'inband': only, 'count': count}, phase, tmpl, None)))
    for v in vecs:
        if len(v) <= 1 and v.get('inband', '1') == '1':
            for tmpl, base in (('manifest_n', None), ('manifest_n', '0'), ('hand_made', '0')):
                items.append(('run', ('bbb', 'vod', v, 0, tmpl, base)))
                items.append(('run', ('bbb', 'live', v, 17.3, tmpl, base)))
    items.append(('codec-special', None))
    step = 2000
    stride = 1 if tier != 'quick' else 9
    for lo in range(0, N_CODEC, step * stride):
        items.append(('codec', (lo, lo + step)))
    return items


def run(ctx):
    items = plan(ctx.tier)
    ctx.merge_all(ctx.pmap(_dispatch, items, chunksize=2))
    ctx.extra.update(work_items=len(items), alphabet=ALPHABET, layouts={k: list(v) for k, v in LAYOUTS.items()},
                     codec_combinations=N_CODEC,
                     levels_completed=('schedule deviation level <= 2 (vod), <= 1 (live, 2 phases); codec: every 9th block of 2000'
                                       if ctx.quick else
                                       'schedule deviation level <= 3 (vod), <= 2 (live, 4 phases); codec: complete product'))


def replay(record):
    if record.get('kind') == 'codec-special':
        a = codec_special(None)
        return [(s, v[0]['what']) for s, v in a.viol.items()]
    if record.get('kind') == 'codec':
        # locate the combination again
        acc = core.Acc()
        for lo in range(0, N_CODEC, 2000):
            a = codec_roundtrip((lo, lo + 2000))
            acc.merge(a)
            if a.viol:
                break
        return [(s, v[0]['what']) for s, v in acc.viol.items()]
    acc = execute((record['stream'], record['mode'], record['vec'], record['phase'], record.get('template', 'hand_made'),
                   record.get('base')))
    return [(s, v[0]['what']) for s, v in acc.viol.items()]
