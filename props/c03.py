"""C03 - rewritten media segments keep their payload and point at it correctly.

Bounded-exhaustive product (deviation levels over the option coordinates the
property names) x every stored segment of every stream, through HTTP: the
manifest is fetched with the option vector (so the options travel the way a
client sends them), every segment it enumerates is fetched and decoded with
the independent box walker and compared with the stored file.
"""
from __future__ import annotations

import datetime
import hashlib
import itertools

from mc import history, bmff, core, crawl, mpd, world as W
from mc.explorer import deviation_vectors
from props import c01

ID = 'C03'
LEVEL = 'model_checking'
PREFORK_WORLD = {}
RULE = ('state = (stream, mode, addressing, option vector, representation, segment); every vector of the stated '
        'deviation levels x every enumerated segment; non-trivial = a 200 media segment that was decoded and '
        'compared with the stored bytes (distinct by vector, representation, source segment); history pairs: state = (session a, session b), every ordered pair, each in a process forked for it')
ASSUMPTIONS = [
    'stored payload = mdat body of the k-th moof/mdat pair found by the independent scan of the stored file',
    'base for trun.data_offset / saio offsets: explicit base_data_offset, else the start of the enclosing moof',
    'with bugs=saio only the saio clause is waived',
    'senc / PIFF bodies are decoded under their own flags (23001-7) with the IV size of the stored tenc',
]

NOW = datetime.datetime(2024, 3, 1, 12, 0, 3, 500000, tzinfo=datetime.timezone.utc)

DEFAULTS = {'drm': None, 'playready__version': None, 'playready__piff': None, 'events': None, 'bugs': None}
ALPHABET = {
    'drm': [None, 'all', 'playready', 'marlin', 'clearkey', 'playready,marlin', 'playready-moov', 'playready-cenc',
            'playready-pro', 'clearkey-moov', 'marlin-cenc', 'all-moov', 'playready-cenc-pro,clearkey-cenc'],
    'playready__version': [None, '1.0', '2.0', '3.0', '4.0'],
    'playready__piff': [None, '1', '0'],
    'events': [None, 'ping', 'scte35', 'ping,scte35'],
    'bugs': [None, 'saio'],
}
EVENT_SCHEDULES = [
    {},                                                             # defaults: interval 1000/100 = 10 s
    {'ping__interval': '150', 'scte35__interval': '150'},           # ~3 events per 4 s segment
    {'ping__version': '1', 'scte35__version': '1', 'ping__interval': '400'},
]
STREAMS = ('bbb', 'tears', 'synirr', 'synoff', 'synnot', 'synenc', 'synmk', 'syndef', 'syntrk', 'synzero')


def vectors(tier):
    out = []
    seen = set()

    def add(v):
        k = tuple(sorted(v.items()))
        if k not in seen:
            seen.add(k)
            out.append(v)
    levels = (0, 1, 2) if tier == 'quick' else (0, 1, 2, 3)
    for lv in levels:
        for v in deviation_vectors(DEFAULTS, ALPHABET, lv):
            if tier == 'quick' and lv == 2:
                # quick: level 2 only for pairs inside {drm, piff, version, events} with a drm selection
                if 'drm' not in v and not ('events' in v and 'bugs' not in v):
                    continue
                if v.get('drm') not in (None, 'all', 'playready', 'playready-moov', 'clearkey', 'marlin'):
                    continue
            add(v)
    # the combination the property singles out: drm x piff x events triples
    for drm in ('all', 'playready'):
        for piff in ('1',):
            for ev in ('ping', 'scte35', 'ping,scte35'):
                for bugs in (None, 'saio'):
                    v = {'drm': drm, 'playready__piff': piff, 'events': ev}
                    if bugs:
                        v['bugs'] = bugs
                    add(v)
    return out


def plan(tier):
    items = []
    vecs = vectors(tier)
    for stream in STREAMS:
        for mode in ('vod', 'live'):
            for timeline in (None, '1'):
                for v in vecs:
                    heavy = stream in ('bbb', 'tears')
                    if stream not in ('bbb', 'synenc', 'synmk') and any(
                            k in v for k in ('drm', 'playready__version', 'playready__piff', 'bugs')):
                        continue    # no encrypted media: DRM vectors are vacuous there (C16 judges them)
                    if tier == 'quick' and heavy:
                        # the big fixture streams get level <= 1 + the singled-out triples in quick
                        if len(v) > 1 and not (v.get('playready__piff') == '1' and 'events' in v):
                            continue
                        if stream == 'tears' and len(v) > 0 and (mode == 'live' or timeline):
                            continue
                    scheds = EVENT_SCHEDULES if v.get('events') and (tier != 'quick' or not heavy) else [{}]
                    for sch in scheds:
                        opts = {k: val for k, val in v.items() if val is not None}
                        opts.update(sch)
                        if timeline:
                            opts['timeline'] = timeline
                        if mode == 'live':
                            opts['depth'] = '30'
                            opts['start'] = 'epoch' if (len(v) % 2) else '2024-03-01T00:00:00Z'
                        items.append({'stream': stream, 'mode': mode, 'opts': opts})
    return items


_stored_idx: dict = {}


def stored_index(stream, fname):
    key = (stream, fname)
    if key not in _stored_idx:
        st = crawl.Stored.fixture(stream)
        f = st.files[fname]
        idx = {}
        for s in f['segs']:
            pl = f['data'][s['payload_start']:s['payload_start'] + s['payload_len']]
            idx.setdefault(hashlib.blake2b(pl, digest_size=12).digest(), []).append(s)
        _stored_idx[key] = (idx, f)
    return _stored_idx[key]


def check_segment(acc, rec, stream, mode, opts, rep, seg, body):
    kind = rep.content_type
    bugs_saio = 'saio' in (opts.get('bugs') or '')
    sigp = f'C03|{kind}'

    def bad(clause, text):
        acc.violation(f'{sigp}|{clause}', f'{stream} {mode} {opts} {rep.id} '
                      f'{"$Time$=%d" % seg["t"] if seg["kind"] == "time" else "$Number$=%d" % seg["n"]}: {text}', rec)
    st = crawl.Stored.fixture(stream)
    if rep.id not in st.files:
        acc.outcome(('unknown-file', rep.id))
        return
    idx, f = stored_index(stream, rep.id)
    init = f['init']
    try:
        frag = bmff.Fragment(body, init)
    except bmff.Malformed as e:
        bad('malformed', f'served bytes do not nest: {e}')
        return
    except Exception as e:
        bad('undecodable', f'{type(e).__name__}: {e}')
        return
    cands = idx.get(hashlib.blake2b(frag.payload, digest_size=12).digest())
    if not cands:
        bad('payload-differs', f'mdat payload ({len(frag.payload)} bytes) equals no stored segment payload')
        return
    src = cands[0]
    if mode == 'vod' and seg['kind'] == 'number':
        start_number = rep.template.geti('startNumber', 1)
        if all(c['index'] != seg['n'] - start_number + 1 for c in cands):
            bad('wrong-segment', f'delivers stored segment {src["index"]}')
    ds = frag.data_start()
    want = frag.mdat.start + frag.mdat.hdr
    if frag.trun['data_offset'] is None:
        bad('trun-no-data-offset', 'trun carries no data_offset although the moof was rewritten')
    elif ds != want:
        bad('trun-data-offset', f'base+data_offset addresses byte {ds}, first payload byte is {want} '
            f'(tfhd flags {frag.tfhd["flags"]:#x})')
    if None in frag.sample_sizes:
        bad('sample-size-unknown', 'sample sizes undeterminable')
    elif sum(frag.sample_sizes) != len(frag.payload):
        bad('sample-sizes', f'sample sizes sum to {sum(frag.sample_sizes)}, payload is {len(frag.payload)} bytes')
    acc.nontriv((stream, mode, tuple(sorted(opts.items())), rep.id, src['index']))
    acc.state((stream, mode, tuple(sorted(opts.items())), rep.id, seg['kind'], seg['n'], seg['t']))
    senc_box = frag.senc_box()
    piff_box = frag.piff_box()
    acc.outcome((kind, init.encrypted, senc_box is not None, piff_box is not None,
                 len(frag.emsgs), frag.tfdt['version'] if frag.tfdt else None))
    if init.encrypted:
        if senc_box is None:
            bad('senc-missing', 'encrypted track served without senc')
            return
        try:
            se = bmff.senc(senc_box, init.iv_size)
        except bmff.Malformed as e:
            bad('senc-body-vs-flags', f'senc does not decode under its own flags: {e}')
            se = None
        if piff_box is not None:
            try:
                pf = bmff.piff_senc(piff_box, init.iv_size)
                if se is not None and (pf['sample_count'] != se['sample_count'] or pf['samples'] != se['samples']):
                    bad('piff-differs-from-senc', 'PIFF sample data differs from senc')
            except bmff.Malformed as e:
                bad('senc-body-vs-flags', f'PIFF box does not decode under its own flags: {e}')
        if se is not None and se['sample_count'] != frag.trun['sample_count']:
            bad('senc-count', f'senc lists {se["sample_count"]} samples, trun {frag.trun["sample_count"]}')
        saio_box = frag.traf.find('saio')
        if saio_box is None:
            bad('saio-missing', 'no saio')
        elif se is not None:
            so = bmff.saio(saio_box)
            base = frag.tfhd.get('base_data_offset', frag.moof.start)
            target = base + (so['offsets'][0] if so['offsets'] else -1)
            if target != se['first_sample_pos'] and not bugs_saio:
                bad('saio-offset', f'saio addresses byte {target}, first senc sample entry is at {se["first_sample_pos"]}')
        saiz_box = frag.traf.find('saiz')
        if saiz_box is not None and se is not None:
            sz = bmff.saiz(saiz_box)
            if sz['sample_count'] != se['sample_count']:
                bad('saiz-count', f'saiz lists {sz["sample_count"]} samples, senc {se["sample_count"]}')


def execute(item):
    w = W.World.shared()
    w.begin_item()
    acc = core.Acc()
    stream, mode, opts = item['stream'], item['mode'], item['opts']
    url = crawl.manifest_url(mode, stream, 'hand_made', opts)
    rec = {'stream': stream, 'mode': mode, 'opts': opts}
    if item.get('before'):
        # a history: the sessions of other option vectors come first, in this process; what is judged is the last one
        rec['before'] = item['before']
        for prev in item['before']:
            crawl.crawl(w, core.Acc(), crawl.manifest_url(mode, stream, 'hand_made', prev), NOW, policy='all',
                        on_segment=lambda *a: None)
            acc.count('evaluations')
        acc.state(('history', stream, mode, tuple(tuple(sorted(p.items())) for p in item['before']), tuple(sorted(opts.items()))))

    def on_segment(doc, rep, seg, pos, path, sr):
        if sr.status != 200:
            acc.outcome(('segment-status', sr.status))
            acc.count('segment_not_200')
            return
        check_segment(acc, dict(rec, fetch=path, rep=rep.id), stream, mode, opts, rep, seg, sr.body)

    crawl.crawl(w, acc, url, NOW, policy='all', on_segment=on_segment)
    return acc


def history_alphabet(tier):
    """Sessions for the differential history oracle (mc/history.py): every option vector of deviation level <= 1 on the
    small encrypted stream, static and live."""
    hv = [v for v in vectors(tier) if len(v) <= 1]
    if tier == 'quick':
        hv = [v for v in hv if v.get('drm') in (None, 'all', 'playready', 'clearkey-moov')]
    out = []
    for v in hv:
        opts = {k: x for k, x in v.items() if x is not None}
        label = ','.join(f'{k}={x}' for k, x in sorted(opts.items())) or 'default'
        out.append((f'vod|{label}', crawl.manifest_url('vod', 'synenc', 'hand_made', opts), crawl.iso(NOW)))
    for v in hv[:4] if tier == 'quick' else hv:
        opts = {k: x for k, x in v.items() if x is not None}
        label = ','.join(f'{k}={x}' for k, x in sorted(opts.items())) or 'default'
        opts = dict(opts, depth='30', start='2024-03-01T00:00:00Z')
        out.append((f'live|{label}', crawl.manifest_url('live', 'synenc', 'hand_made', opts), crawl.iso(NOW)))
    return out


def run(ctx):
    # histories first: these workers only fork, so that every pair starts from a process that has served nothing
    alpha = history_alphabet(ctx.tier)
    ctx.merge_all(ctx.pmap(history.pair_item, [('C03', a, alpha) for a in range(len(alpha))]))
    items = plan(ctx.tier)
    ctx.merge_all(ctx.pmap(execute, items, chunksize=2))
    ctx.extra.update(history_alphabet=[a[0] for a in alpha], history_pairs=len(alpha) * (len(alpha) - 1))
    ctx.extra.update(work_items=len(items), vectors=len(vectors(ctx.tier)), alphabet=ALPHABET,
                     event_schedules=EVENT_SCHEDULES, streams=list(STREAMS),
                     levels_completed=('deviation levels 0-1 everywhere, level 2 inside {drm,piff,version,events} '
                                       '(synthetic streams: full level 2), + drm x piff x events x bugs triples')
                     if ctx.quick else 'deviation levels 0-3 over {drm, version, piff, events, bugs} on all streams')


def replay(record):
    if record.get('kind') == 'history-pair':
        alpha = [tuple(record['a']), tuple(record['b'])]
        acc = history.run_forked(history.pair_item, ('C03', 0, alpha))
        return [(s, v[0]['what']) for s, v in acc.viol.items()]
    item = {'stream': record['stream'], 'mode': record['mode'], 'opts': record['opts'], 'before': record.get('before')}
    acc = execute(item)
    return [(s, v[0]['what']) for s, v in acc.viol.items()]
