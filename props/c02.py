"""C02 - served segments carry exactly the advertised time, number and duration.

Same clock x option exploration as C01 (shared crawler); this module adds the
byte-level oracle: every fetched segment is decoded with the independent box
reader and compared with the manifest entry that produced its URL and with
the oracle's own scan of the stored file.
"""
from __future__ import annotations

import datetime
import hashlib
from fractions import Fraction

from mc import bmff, core, crawl, mpd, world as W
from props import c01

ID = 'C02'
LEVEL = 'model_checking'
PREFORK_WORLD = {}
RULE = ('state = (stream, timing reference, template, option vector, magnitude class, critical-instant index); '
        'transition = one segment request; non-trivial = a fetched 200 segment whose tfdt/mfhd/trun were decoded '
        'and compared with the S entry or $Number$ that produced its URL')
ASSUMPTIONS = [
    'a tfdt that needs more than 32 bits must be carried in a version-1 box (one direction only)',
    'number clause tolerance: duration/2 + |reference duration - N x @duration| ticks (one loop\'s drift correction) + 1 tick',
    'alignment clause: stored position == presentation time modulo the reference duration, tolerance one tick of '
    'the track timescale plus one tick per completed loop when the reference duration is not integral in it',
    'source segment identified by exact mdat payload match against the stored file',
]


_payload_index: dict = {}


def payload_index(stream, fname):
    key = (stream, fname)
    if key not in _payload_index:
        st = crawl.Stored.fixture(stream)
        f = st.files[fname]
        idx = {}
        for s in f['segs']:
            pl = f['data'][s['payload_start']:s['payload_start'] + s['payload_len']]
            # payloads need not be unique (repeated subtitle cues): keep every candidate
            idx.setdefault(hashlib.blake2b(pl, digest_size=12).digest(), []).append(s)
        _payload_index[key] = idx
    return _payload_index[key]


def ref_name_of(stream, override=None):
    if override:
        return override
    return c01.STREAM_FILES[stream]['ref']


def oracle(acc, rec, doc, rep, seg, pos, resp, stream=None, ref_override=None, vod=False):
    stream = stream or rec['stream']
    kind = rep.content_type
    mode = seg['kind']
    st = crawl.Stored.fixture(stream)
    fname = rep.id if rep.id in st.files else None
    try:
        frag = bmff.Fragment(resp.body, st.files[fname]['init'] if fname else None)
    except bmff.Malformed as e:
        acc.violation(f'C02|{mode}|unreadable|{kind}', f'{rec["url"]} {rep.id}: served segment unreadable: {e}',
                      dict(rec, rep=rep.id, fetch=mpd.split_url(seg['url'])))
        return
    r = dict(rec, rep=rep.id, fetch=mpd.split_url(seg['url']))
    ts = rep.timescale
    tf = frag.tfdt['base_media_decode_time'] if frag.tfdt else None
    if tf is None:
        acc.violation(f'C02|{mode}|no-tfdt|{kind}', f'{rep.id}: served segment has no tfdt', r)
        return
    if tf >= 2 ** 32 and frag.tfdt['version'] != 1:
        acc.violation(f'C02|{mode}|tfdt-version|{kind}', f'{rep.id}: tfdt {tf} in a version-0 box', r)
    loops = None
    if fname is not None:
        ref = ref_name_of(stream, ref_override)
        _, ref_dur = st.seg_starts(ref)              # Fraction seconds
        loops = int(Fraction(tf, ts) // ref_dur)
    vtag = '|vod' if vod else ''
    if vod and fname is not None and st.files[fname]['segs'][0]['tfdt'] != 0:
        vtag += '|first-decode-time!=0'
    if mode == 'time':
        if tf != seg['t']:
            acc.violation(f'C02|time|tfdt!=t|{kind}{vtag}',
                          f'{rec["template"]} {rec["opts"]} at {rec["now"]}: {rep.id} $Time$={seg["t"]} carries '
                          f'tfdt {tf} (diff {tf - seg["t"]})', r)
        if frag.duration is None:
            acc.violation(f'C02|time|no-duration|{kind}', f'{rep.id}: sample durations undeterminable', r)
        elif frag.duration != seg['d']:
            last = ''
            if fname is not None:
                cands = payload_index(stream, fname).get(hashlib.blake2b(frag.payload, digest_size=12).digest())
                if cands and any(c['index'] == len(st.files[fname]['segs']) for c in cands):
                    last = '|loop-last'
            acc.violation(f'C02|time|sum-durations!=d|{kind}{last}{vtag}',
                          f'{rec["template"]} {rec["opts"]} at {rec["now"]}: {rep.id} $Time$={seg["t"]} advertised '
                          f'd={seg["d"]} but samples sum to {frag.duration}', r)
    else:
        if frag.mfhd['sequence_number'] != seg['n']:
            acc.violation(f'C02|number|sequence!=n|{kind}',
                          f'{rep.id} $Number$={seg["n"]} carries sequence_number {frag.mfhd["sequence_number"]}', r)
        d = seg['d']
        start_number = rep.template.geti('startNumber', 1)
        nominal = (seg['n'] - start_number) * d
        tol = Fraction(d, 2)
        if fname is not None:
            nseg = len(st.files[fname]['segs'])
            _, own = st.seg_starts(fname)
            ref_tc = ref_dur * ts
            per_loop = max(abs(ref_tc - nseg * d), abs(ref_tc - own * ts))
            # the number is turned into a time ((n - startNumber) x duration) and the segment nearest to that time is
            # served, so the distance never grows with the age of the stream: half a segment plus one loop's correction
            tol += per_loop + 1
        if abs(tf - nominal) > tol:
            acc.violation(f'C02|number|tfdt-far-from-nominal|{kind}{vtag}',
                          f'{rec["template"]} {rec["opts"]} at {rec["now"]}: {rep.id} $Number$={seg["n"]} nominal '
                          f'{nominal} but tfdt {tf} (tolerance {float(tol):.1f})', r)
    # alignment clause (live looping; a static presentation plays the file once)
    if fname is not None and not vod:
        cands = payload_index(stream, fname).get(hashlib.blake2b(frag.payload, digest_size=12).digest())
        if not cands:
            acc.outcome(('payload-unknown', kind))      # C03 judges payload identity
        else:
            f = st.files[fname]
            first = f['segs'][0]['tfdt']
            pres = Fraction(tf, ts)
            tick = Fraction(1, ts)
            slack = tick
            if (ref_dur * ts).denominator != 1:
                slack += tick * (loops + 1)
            best = None
            for src in cands:
                stored_pos = Fraction(src['tfdt'] - first, ts)
                off = (pres - stored_pos) % ref_dur
                off = min(off, ref_dur - off)
                if best is None or off < best[0]:
                    best = (off, src, stored_pos)
            off, src, stored_pos = best
            if off > slack:
                cls = 'first-decode-time!=0' if first else ('ref-not-integral' if (ref_dur * ts).denominator != 1 else 'other')
                acc.violation(f'C02|{mode}|misaligned|{kind}|{cls}',
                              f'{rec["template"]} {rec["opts"]} at {rec["now"]}: {rep.id} segment at presentation '
                              f'{float(pres):.6f}s delivers stored segment {src["index"]} (source position '
                              f'{float(stored_pos):.6f}s); modulo the reference duration {float(ref_dur)}s they differ by '
                              f'{float(off):.6f}s', r)
            acc.outcome((mode, kind, src['index']))


def timeline_gapless(acc, rec, doc):
    for rep in doc.all_reps():
        raw = rep.template.timeline_raw if rep.template is not None else None
        if not raw:
            continue
        cur = None
        for t, d, rr in raw:
            if t is not None and cur is not None and t != cur:
                acc.violation(f'C02|timeline-gap|{rep.content_type}',
                              f'{rec["template"]} {rec["opts"]} at {rec["now"]}: {rep.id} S@t={t} but previous entry '
                              f'ends at {cur}', dict(rec, rep=rep.id))
            if t is not None:
                cur = t
            cur = (cur or 0) + d * (rr + 1)


def plan(tier):
    items = []
    for it in c01.plan(tier):
        # byte-level oracle: the non-timing option dimension matters less; keep timing group + base vectors
        o = it['opts']
        if set(o) - set(c01.TIMING_GROUP) and tier == 'quick':
            continue
        items.append(it)
    # synthetic streams and alternative timing references
    for stream, names in (('synirr', None), ('synoff', None), ('synnot', None), ('synwild', None), ('synnum', None), ('syndef', None), ('syntrk', None), ('synzero', None)):
        for tmpl in ('hand_made', 'manifest_e', 'manifest_n'):
            for opts in ({'start': 'explicit', 'depth': '30'}, {'start': 'explicit', 'depth': '30', 'timeline': '1'},
                         {'start': 'epoch', 'depth': '30'}):
                if opts.get('timeline') and tmpl == 'manifest_e':
                    continue
                items.append({'stream': stream, 'template': tmpl, 'opts': opts, 'stride': 1 if tier != 'quick' else 6,
                              'tier': tier})
    for stream in ('bbb', 'tears', 'synirr', 'synoff', 'synnot', 'synwild', 'synnum', 'syndef', 'syntrk', 'synzero'):
        for tmpl in ('hand_made', 'manifest_e', 'manifest_n'):
            for opts in ({}, {'timeline': '1'}):
                if opts and tmpl == 'manifest_e':
                    continue
                items.append({'stream': stream, 'template': tmpl, 'opts': opts, 'tier': tier, 'mode': 'vod'})
    for di in range(len(MPS_DEFS)):
        for opts in ({}, {'timeline': '1'}):
            items.append({'mode': 'mps', 'def': di, 'opts': opts, 'tier': tier})
    # defaults saved with the stream: a time line for every template, also those that have no SegmentTimeline support
    for tmpl in ('hand_made', 'manifest_e', 'manifest_b', 'manifest_h', 'manifest_i', 'manifest_ef', 'manifest_n'):
        items.append({'stream': 'bbb', 'template': tmpl, 'opts': {}, 'tier': tier, 'mode': 'vod', 'sdef': {'segmentTimeline': True}})
        if tmpl != 'manifest_b':
            items.append({'stream': 'bbb', 'template': tmpl, 'opts': {'start': 'explicit', 'depth': '30'}, 'tier': tier,
                          'stride': 6 if tier != 'quick' else 48, 'sdef': {'segmentTimeline': True}})
    for stream, ref in (('bbb', 'bbb_a1'), ('bbb', 'bbb_t1'), ('synirr', 'synirr_a1')):
        for opts in ({'start': 'explicit', 'depth': '30'}, {'start': 'explicit', 'depth': '30', 'timeline': '1'}):
            items.append({'stream': stream, 'template': 'hand_made', 'opts': opts, 'tier': tier,
                          'stride': 4 if tier != 'quick' else 48, 'ref': ref})
    return items


def execute_vod(item):
    w = W.World.shared()
    w.begin_item()
    acc = core.Acc()
    url = crawl.manifest_url('vod', item['stream'], item['template'], item['opts'])
    rec = {'stream': item['stream'], 'template': item['template'], 'opts': item['opts'], 'now': crawl.iso(c01.NOON),
           'url': url, 'ref': None, 'mode': 'vod'}
    if item.get('sdef_record'):
        rec['sdef'] = item['sdef_record']

    def on_manifest(doc, r):
        timeline_gapless(acc, rec, doc)

    def on_segment(doc, rep, seg, pos, path, sr):
        if sr.status != 200:
            acc.outcome(('vod-segment', sr.status))     # C06 judges retrievability
            return
        acc.nontriv(('vod', item['stream'], item['template'], tuple(sorted(item['opts'].items())), rep.id, seg['n']))
        acc.state(('vod', item['stream'], item['template'], tuple(sorted(item['opts'].items())), rep.id, seg['n']))
        oracle(acc, rec, doc, rep, seg, pos, sr, vod=True)

    crawl.crawl(w, acc, url, c01.NOON, policy='all', on_manifest=on_manifest, on_segment=on_segment)
    return acc


MPS_DEFS = [
    [dict(stream='bbb', start=8.0, duration=12.0, tracks=[('video', 1), ('audio', 2)])],
    [dict(stream='bbb', start=0.0, duration=8.0, tracks=[('video', 1), ('audio', 2)]),
     dict(stream='tears', start=12.0, duration=16.0, tracks=[('video', 1), ('audio', 2)])],
    [dict(stream='synirr', start=2.5, duration=5.0, tracks=[('video', 1), ('audio', 2)]),
     dict(stream='bbb', start=4.0, duration=8.0, tracks=[('video', 1), ('audio', 2)])],
]


def execute_mps(item):
    """The same clauses inside the Periods of a static multi-period presentation: $Number$ restarts at startNumber in
    every Period and the Period starts at an offset into its source, so segment n is not stored fragment n."""
    w = W.World.shared()
    w.begin_item()
    acc = core.Acc()
    periods = MPS_DEFS[item['def']]
    name = f'c02mps{item["def"]}'
    rec = {'mode': 'mps', 'def': item['def'], 'opts': item['opts']}
    try:
        with w.appctx():
            w.add_mps(name, [dict(pid=f'p{i + 1}', **p) for i, p in enumerate(periods)])
            w.models.db.session.remove()
        url = crawl.manifest_url('vod', name, 'hand_made', item['opts'], mps=True)
        W.set_now(c01.NOON)
        r = w.get(url)
        acc.count('evaluations')
        acc.count('transitions')
        if r.status != 200:
            acc.outcome(('mps-manifest', r.status))      # C12 judges the manifest
            return acc
        doc = mpd.Mpd(r.body, 'http://localhost' + url.split('?')[0])
        for pi, p in enumerate(doc.periods):
            stream = periods[min(pi, len(periods) - 1)]['stream']
            st = crawl.Stored.fixture(stream)
            for rep in p.reps:
                if rep.id not in st.files or rep.template is None:
                    continue
                kind = rep.content_type
                ts = rep.timescale
                sn = rep.template.geti('startNumber', 1)
                d = rep.template.geti('duration')
                rr = dict(rec, period=p.id, rep=rep.id)
                durs = {sg['duration'] for sg in st.files[rep.id]['segs'][:-1]}
                shape = ('regular-durations' if len(durs) <= 1 else 'irregular-durations') + \
                    ('|source-offset=0' if not periods[min(pi, len(periods) - 1)]['start'] else '|source-offset!=0')
                if rep.template.timeline and rep.uses_time():
                    entries = [('time', t_, d_, None) for (t_, d_) in rep.template.timeline[:16]
                               if p.duration is None or Fraction(t_ - rep.template.timeline[0][0], ts) < p.duration]
                elif d and rep.uses_number():
                    limit = p.duration if p.duration is not None else 0
                    entries = [('number', None, d, sn + k) for k in range(16) if Fraction(k * d, ts) < limit]
                else:
                    continue
                for mode, t_, d_, n in entries:
                    sr = w.get(mpd.split_url(rep.media_url(time=t_, number=n if n is not None else sn)))
                    acc.count('evaluations')
                    acc.count('transitions')
                    acc.state(('mps', item['def'], tuple(sorted(item['opts'].items())), p.id, rep.id, mode, t_, n))
                    if sr.status != 200:
                        acc.outcome(('mps-segment', sr.status))     # C12 judges retrievability
                        continue
                    try:
                        frag = bmff.Fragment(sr.body, st.files[rep.id]['init'])
                    except bmff.Malformed as e:
                        acc.violation(f'C02|mps|{mode}|unreadable|{kind}', f'{url} {p.id}/{rep.id}: {e}', rr)
                        continue
                    acc.nontriv(('mps', item['def'], tuple(sorted(item['opts'].items())), p.id, rep.id, mode, t_, n))
                    tf = frag.tfdt['base_media_decode_time'] if frag.tfdt else None
                    if tf is None:
                        acc.violation(f'C02|mps|{mode}|no-tfdt|{kind}', f'{url} {p.id}/{rep.id}: no tfdt', rr)
                        continue
                    if mode == 'time':
                        if tf != t_:
                            acc.violation(f'C02|mps|time|tfdt!=t|{kind}|{shape}', f'{url} {p.id}/{rep.id} $Time$={t_} carries tfdt {tf}', rr)
                        if frag.duration != d_:
                            acc.violation(f'C02|mps|time|sum-durations!=d|{kind}|{shape}',
                                          f'{url} {p.id}/{rep.id} $Time$={t_} advertised d={d_} but samples sum to '
                                          f'{frag.duration}', rr)
                    else:
                        if frag.mfhd['sequence_number'] != n:
                            acc.violation(f'C02|mps|number|sequence!=n|{kind}',
                                          f'{url} {p.id}/{rep.id} $Number$={n} carries sequence_number '
                                          f'{frag.mfhd["sequence_number"]}', rr)
                        nominal = (n - sn) * d
                        if abs(tf - nominal) > Fraction(d, 2):
                            acc.violation(f'C02|mps|number|tfdt-far-from-nominal|{kind}',
                                          f'{url} {p.id}/{rep.id} $Number$={n} nominal {nominal} but tfdt {tf}', rr)
    finally:
        w.reset()
    return acc


def set_stream_defaults(w, stream, sdef):
    with w.appctx():
        st = w.models.Stream.get(directory=stream)
        st.defaults = dict(sdef)
        w.models.db.session.commit()
        w.models.db.session.remove()


def execute(item):
    w = W.World.shared()
    if item.get('sdef'):
        # options that come from the defaults saved with the stream instead of the query string
        w.begin_item()
        set_stream_defaults(w, item['stream'], item['sdef'])
        try:
            return execute_(dict(item, sdef=None, sdef_record=item['sdef']))
        finally:
            w.reset()
    return execute_(item)


def execute_(item):
    if item.get('mode') == 'vod':
        return execute_vod(item)
    if item.get('mode') == 'mps':
        return execute_mps(item)
    ref = item.get('ref')
    w = W.World.shared()
    if ref:
        set_timing_ref(w, item['stream'], ref)
    try:
        def orc(acc, rec, doc, rep, seg, pos, resp):
            oracle(acc, rec, doc, rep, seg, pos, resp, ref_override=ref)
        acc = c01.execute(item, oracle=orc, manifest_hook=timeline_gapless)
    finally:
        if ref:
            w.reset()
    # C01's own signatures are not C02's business
    for s in [s for s in acc.viol if s.startswith('C01|')]:
        acc.counts['c01_failures_seen'] += acc.viol_count[s]
        del acc.viol[s]
        del acc.viol_count[s]
    return acc


def set_timing_ref(w, stream, fname):
    models = w.models
    with w.appctx():
        st = models.Stream.get(directory=stream)
        mf = models.MediaFile.get(name=fname)
        st.timing_reference = mf.as_stream_timing_reference()
        models.db.session.commit()
        models.db.session.remove()


def run(ctx):
    items = plan(ctx.tier)
    ctx.merge_all(ctx.pmap(execute, items))
    ctx.extra.update(configs=len(items), alphabet=c01.ALPHABET,
                     streams=['bbb', 'tears', 'synirr', 'synoff', 'synnot'],
                     timing_references=['default (first video)', 'bbb_a1', 'bbb_t1', 'synirr_a1'],
                     levels_completed='C01 plan restricted to the timing group (quick) / whole C01 plan (thorough) '
                                      '+ synthetic layouts + alternative timing references')


def replay(record):
    if record.get('sdef'):
        w = W.World.shared()
        set_stream_defaults(w, record['stream'], record['sdef'])
        try:
            return replay({k: v for k, v in record.items() if k != 'sdef'})
        finally:
            w.reset()
    if record.get('mode') == 'mps':
        acc = execute_mps({'def': record['def'], 'opts': record['opts']})
        return [(s, v[0]['what']) for s, v in acc.viol.items() if s.startswith('C02|')]
    if record.get('mode') == 'vod':
        acc = execute_vod({'stream': record['stream'], 'template': record['template'], 'opts': record['opts']})
        return [(s, v[0]['what']) for s, v in acc.viol.items() if s.startswith('C02|')]
    w = W.World.shared()
    ref = record.get('ref')
    if ref:
        set_timing_ref(w, record['stream'], ref)
    try:
        def orc(acc, rec, doc, rep, seg, pos, resp):
            oracle(acc, rec, doc, rep, seg, pos, resp, ref_override=ref)
        w.begin_item()
        acc = core.Acc()
        item = {'stream': record['stream'], 'template': record['template'], 'opts': record['opts'], 'tier': 'quick',
                'ref': ref}
        now = W.set_now(record['now'])
        depth = c01._depth_of(record['opts'])
        c01.crawl_one(w, acc, item, record['url'], now, 'all' if depth <= 64 else 'edges', 'replay', orc,
                      manifest_hook=timeline_gapless)
    finally:
        if ref:
            w.reset()
    return [(s, v[0]['what']) for s, v in acc.viol.items() if s.startswith('C02|')]
