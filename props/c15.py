"""C15 - only authorised roles can change persistent state.

Part 1 (explicit-state, depth 1 from a populated snapshot): every mutating
request template x role x every CSRF token the role could harvest (or none)
x bearer on/off, plus a generic sweep over every rule of the routing table x
method x role; after each request the digest of every table (Token excluded)
and of the blob tree is compared with the snapshot and the store restored.
Part 2 (TLA+ model `Csrf` checked by TLC, all behaviours replayed against
CsrfProtection and against real endpoints): see props/c15_csrf.py.
"""
from __future__ import annotations

import datetime
import re

from mc import core, mgmt, world as W

ID = 'C15'
LEVEL = 'model_checking'
RULE = ('state = (role, route, method, parameter set) applied to the restored snapshot, plus the TLC states of the Csrf '
        'model; transition = one request / one replayed model edge; non-trivial = a request that changed the store '
        '(authorised or not) or a model edge whose outcome was compared with the implementation')
ASSUMPTIONS = [
    'role/table map from docs/users.md: anonymous changes nothing; user only its own User row; media the stream, media, '
    'blob, key, multi-period tables and its own User row; admin anything; the Token table is not persistent state',
    'flask_login is replaced by the stand-in in /verif/shims (documented semantics)',
    'tokens, cookies and JWTs are only those the role obtains by GET requests and its own login',
]
NOW = datetime.datetime(2024, 3, 1, 12, 0, 0, tzinfo=datetime.timezone.utc)


class Env:
    """Per-worker environment: world, role clients, harvested tokens, snapshot."""
    _inst = None

    @classmethod
    def get(cls):
        if cls._inst is None:
            cls._inst = Env()
        return cls._inst

    def __init__(self):
        W.set_now(NOW)
        self.w = mgmt.build_world()
        self.w.reset()
        self.I = mgmt.ids(self.w)
        self.roles = {}
        for role in mgmt.ROLES:
            rc = mgmt.RoleClient(self.w, role)
            rc.login()
            rc.harvest(mgmt.harvest_urls(self.I))
            self.roles[role] = rc
        self.snap = self.w.snapshot()
        self.base = mgmt.store_state(self.w)
        self.cookies = {r: rc.cookies_snapshot() for r, rc in self.roles.items()}
        self.templates = mgmt.templates(self.I)

    def tokens_of(self, role, all_tokens=False):
        rc = self.roles[role]
        if all_tokens:
            return [t for _, t in rc.tokens]
        seen = {}
        for label, tok in rc.tokens:
            seen.setdefault(label, tok)
        return list(seen.values())

    def trial(self, role, fn):
        """Run fn() from the restored snapshot, return (response, store diff)."""
        self.w.restore(self.snap)
        rc = self.roles[role]
        rc.cookies_restore(self.cookies[role])
        W.set_now(NOW)
        r = fn(rc)
        after = mgmt.store_state(self.w)
        return r, mgmt.diff_state(self.base, after)


def rule_of(url):
    u = re.sub(r'\?.*$', '', url)
    u = re.sub(r'/\d+', '/<n>', u)
    return u


# The CSRF service each operation belongs to (the page that offers the operation issues tokens for it). Operations that
# are not listed check no CSRF token: the users API (bearer token only) and DELETE /stream/<pk>.
SERVICE = {
    'create stream (json)': 'streams', 'create stream (form)': 'streams', 'edit stream (json)': 'streams',
    'edit stream (form)': 'streams', 'stream defaults': 'streams', 'delete stream (POST form)': 'streams',
    'delete stream (DELETE /delete)': 'streams', 'upload': 'upload', 'index file': 'files', 'edit media': 'files',
    'delete media (DELETE)': 'files', 'delete media (POST form)': 'files', 'delete media (DELETE /delete)': 'files',
    'add key (PUT computed)': 'keys', 'add key (PUT explicit)': 'keys', 'add key (POST form)': 'keys', 'edit key': 'keys',
    'delete key (DELETE)': 'keys', 'delete key (POST form)': 'keys', 'create mps': 'streams', 'edit mps': 'streams',
    'delete mps': 'streams',
}


def template_item(arg):
    ti, tier = arg
    env = Env.get()
    acc = core.Acc()
    t = env.templates[ti]
    changed_by = set()
    if t['name'] in SERVICE:
        # "only for the service it was issued for ... never after modification": as the role that may perform the
        # operation, with a token of every other service and with text that is no token at all
        role = 'media'
        labels = {}
        for label, tok in env.roles[role].tokens:
            labels.setdefault(label, tok)
        for label, tok in list(labels.items()) + [('no-token-at-all', 'garbage'), ('empty', '')]:
            if label == SERVICE[t['name']]:
                continue
            for bearer in (True, False):
                r, diff = env.trial(role, lambda rc: mgmt.issue(env.w, rc, t, tok, bearer=bearer))
                acc.count('evaluations')
                acc.count('transitions')
                acc.state((t['name'], 'service', label, bearer, tuple(sorted(diff))))
                acc.nontriv((t['name'], 'service', label, bearer))
                if diff:
                    acc.violation(f"C15|csrf-service|{t['method']} {rule_of(t['url'])}|token-of={label}",
                                  f"{t['name']}: {t['method']} {t['url']} as {role} with a token issued for {label!r} (the "
                                  f"operation belongs to {SERVICE[t['name']]!r}) answered {r.status} and changed "
                                  f"{sorted(diff)}",
                                  {'kind': 'template', 'ti': ti, 'name': t['name'], 'role': role, 'token_index': None,
                                   'bearer': bearer, 'service_label': label})
    for role in mgmt.ROLES:
        toks = [None] + env.tokens_of(role, all_tokens=(tier != 'quick'))
        # the once-decoded spelling of each token is in the alphabet too
        from urllib.parse import unquote
        toks += [unquote(x) for x in env.tokens_of(role)]
        for tok in toks:
            for bearer in (True, False):
                r, diff = env.trial(role, lambda rc: mgmt.issue(env.w, rc, t, tok, bearer=bearer))
                acc.count('evaluations')
                acc.count('transitions')
                acc.state((t['name'], role, tok is None, bearer, tuple(sorted(diff))))
                acc.outcome((t['name'], role, r.status, tuple(sorted(diff))))
                if diff:
                    acc.nontriv((t['name'], role, tok, bearer))
                    changed_by.add(role)
                    if not mgmt.allowed_change(role, env.roles[role], diff):
                        tables = ','.join(sorted(diff))
                        acc.violation(
                            f"C15|{t['method']} {rule_of(t['url'])}|role={role}|tables={tables}",
                            f"{t['name']}: {t['method']} {t['url']} as {role} (csrf token "
                            f"{'absent' if tok is None else 'harvested by that role'}, bearer={'yes' if bearer else 'no'}) "
                            f"answered {r.status} and changed {dict((k, sorted(map(str, v))[:4]) for k, v in diff.items())}",
                            {'kind': 'template', 'ti': ti, 'name': t['name'], 'role': role, 'token_index':
                             None if tok is None else toks.index(tok), 'bearer': bearer})
    acc.notes.setdefault('changed_by', {})[t['name']] = sorted(changed_by)
    env.w.restore(env.snap)
    return acc


def generic_item(arg):
    """Every rule of the routing table x method x role x {no token, one token per service} with generic bodies."""
    rules, tier = arg
    env = Env.get()
    acc = core.Acc()
    I = env.I
    spk = I['streams']['synirr']
    mfid = I['files']['synirr_v1'][0]
    subst = {'spk': spk, 'mfid': mfid, 'kpk': next(iter(I['keys'].values())), 'upk': I['users']['user'],
             'mps_name': 'mpsa', 'ppk': I['periods'][0][0], 'stream': 'synirr', 'manifest': 'hand_made.mpd',
             'mode': 'vod', 'filename': 'synirr_v1', 'segment_num': '1', 'ext': 'm4v', 'segment_time': '0',
             'segnum': 1, 'publish': 1709294400, 'method': 'iso', 'path': 'x', 'name': 'x'}
    for rule, args in rules:
        url = rule
        for a in args:
            url = re.sub(r'<[^>]*\b%s>' % re.escape(a), str(subst.get(a, 1)), url)
        if '<' in url:
            acc.outcome(('uninstantiated', rule))
            continue
        for method in ('GET', 'HEAD', 'POST', 'PUT', 'DELETE'):
            for role in mgmt.ROLES:
                toks = [None] + env.tokens_of(role)
                for tok in toks:
                    for ajax in ((True,) if tier == 'quick' else (True, False)):
                        def fn(rc, method=method, url=url, tok=tok, ajax=ajax):
                            u = url
                            q = []
                            if ajax:
                                q.append('ajax=1')
                            if tok is not None:
                                q.append('csrf_token=' + tok)
                            if q:
                                u += '?' + '&'.join(q)
                            kw = {}
                            if method in ('POST', 'PUT'):
                                kw['json_body'] = {'csrf_token': tok, 'title': 'g', 'directory': 'gdir', 'name': 'gname',
                                                   'periods': [], 'username': 'g', 'email': 'g@x', 'password': 'g',
                                                   'confirmPassword': 'g'}
                            return env.w.request(method, u, headers=rc.bearer() or None, client=rc.client, **kw)
                        r, diff = env.trial(role, fn)
                        acc.count('evaluations')
                        acc.count('transitions')
                        acc.state((rule, method, role, tok is None, ajax, tuple(sorted(diff))))
                        if diff:
                            acc.nontriv((rule, method, role, tok, ajax))
                            if not mgmt.allowed_change(role, env.roles[role], diff):
                                acc.violation(
                                    f"C15|{method} {rule_of(url)}|role={role}|tables={','.join(sorted(diff))}",
                                    f'generic sweep: {method} {url} as {role} (token {"absent" if tok is None else "harvested"}) '
                                    f'answered {r.status} and changed {sorted(diff)}',
                                    {'kind': 'generic', 'rule': rule, 'args': list(args), 'method': method, 'role': role,
                                     'token_index': None if tok is None else toks.index(tok), 'ajax': ajax})
    env.w.restore(env.snap)
    return acc


def _ntemplates(_=None):
    return len(mgmt.templates(mgmt.ids(mgmt.build_world())))


def route_rules(_=None):
    w = mgmt.build_world()
    out = []
    for rule in w.app.url_map.iter_rules():
        if rule.endpoint == 'static':
            continue
        out.append((rule.rule, sorted(rule.arguments)))
    return sorted(out)


def _dispatch(item):
    kind, arg = item
    if kind == 'template':
        return template_item(arg)
    if kind == 'generic':
        return generic_item(arg)
    from props import c15_csrf
    return c15_csrf.dispatch(kind, arg)


def run(ctx):
    rules = core.in_child(route_rules)
    ntempl = core.in_child(_ntemplates)
    items = [('template', (i, ctx.tier)) for i in range(ntempl)]
    for ch in core.chunks(rules, 4):
        items.append(('generic', (ch, ctx.tier)))
    from props import c15_csrf
    csrf_items, csrf_extra = c15_csrf.plan(ctx)
    items += csrf_items
    ctx.merge_all(ctx.pmap(_dispatch, items))
    changed_by = ctx.acc.notes.get('changed_by', {})
    dead = sorted(n for n, roles in changed_by.items() if not roles)
    if dead:
        raise core.HarnessError(f'request templates that no role could use to change state (vacuous): {dead}')
    ctx.extra.update(routes=len(rules), templates=ntempl, templates_changed_by=changed_by, **csrf_extra)
    ctx.extra['levels_completed'] = ('every template x role x token x bearer; every route x method x role x token'
                                     + ('' if ctx.quick else ' x ajax on/off, all harvested tokens') + '; ' +
                                     csrf_extra.get('csrf_levels', ''))


def replay(record):
    from props import c15_csrf
    if record.get('kind') == 'csrf':
        return c15_csrf.replay(record)
    env = Env.get()
    acc = core.Acc()
    if record['kind'] == 'template':
        a = template_item((record['ti'], 'quick'))
    else:
        a = generic_item(([(record['rule'], record['args'])], 'quick'))
    return [(s, v[0]['what']) for s, v in a.viol.items()]
