"""C08 - live timing parameters are coherent for every clock and option.

Bounded-exhaustive product on the real DashTiming class, with options produced
by the real option parser and pruned to the values the manifest endpoint
accepts: calendar-critical instants x start values x depth x mup x reference
layouts; the statement's inequalities are evaluated in exact timedelta
arithmetic; an HTTP pass checks that rendered manifests carry the same four
values (conformance of the pure driver to the service).
"""
from __future__ import annotations

import datetime
import itertools

from mc import core, crawl, mpd, world as W

ID = 'C08'
LEVEL = 'model_checking'
PREFORK_WORLD = {}
RULE = ('state = (now, start, depth, mup, reference layout); the whole product of the alphabets is evaluated; '
        'non-trivial = a tuple whose now lies within two minutes of a day boundary, or whose start is explicit, or '
        'whose mup is positive')
ASSUMPTIONS = [
    'explicit start values are <= now (the quantifier of the property)',
    'option values the manifest endpoint refuses (non-200) are dropped from the product and listed in evidence',
    'monotonicity of publishTime is checked along the sorted instants of each configuration',
]
UTC = datetime.timezone.utc
TD = datetime.timedelta

SYMBOLIC = ('epoch', 'today', 'month', 'year', 'now')
EXPLICIT_DELTAS = (TD(0), TD(microseconds=1), TD(seconds=1), TD(seconds=59), TD(seconds=60), TD(seconds=61),
                   TD(seconds=59, microseconds=500000), TD(days=1), TD(days=400))
OFFSETS = ('Z', '+01:00', '-09:30')
DEPTHS = (None, '0', '1', '30', '1800', '-5', '1000000000')
MUPS = (None, '-1', '0', '1', '4', '7', '30')
REFS = ((9600, 240, 960), (15360, 240, 960), (13000, 1000, 2250), (1763328, 44100, 176355), (8000, 200, 2000),
        (7200, 600, 1200))


def days(tier):
    out = []
    years = (2023, 2024)
    for y in years:
        for m in range(1, 13):
            out.append((y, m, 1))
            nxt = datetime.date(y + (m == 12), (m % 12) + 1, 1) - datetime.timedelta(days=1)
            out.append((y, m, nxt.day))
    out.append((2024, 2, 28))
    out.append((2023, 2, 27))
    out = sorted(set(out))
    if tier == 'quick':
        keep = {(2023, 1, 1), (2023, 2, 28), (2023, 3, 1), (2023, 12, 31), (2024, 1, 1), (2024, 2, 29), (2024, 3, 1),
                (2024, 6, 30), (2024, 7, 1), (2024, 12, 31), (2024, 1, 31), (2024, 2, 1)}
        out = [d for d in out if d in keep]
    return out


def instants(tier):
    secs = (0, 1, 30, 59) if tier == 'quick' else (0, 1, 2, 29, 30, 31, 58, 59)
    secs = sorted(set(secs))
    us = (0, 1, 500000, 999999)
    out = []
    for (y, m, d) in days(tier):
        for hh, mm in ((0, 0), (0, 1), (23, 58), (23, 59), (12, 0)):
            for s in (secs if (hh, mm) != (12, 0) else (0, 30)):
                for u in us:
                    out.append(datetime.datetime(y, m, d, hh, mm, s, u, tzinfo=UTC))
    return sorted(out)


def fmt_start(dtv, off):
    if off == 'Z':
        return dtv.strftime('%Y-%m-%dT%H:%M:%S') + ('.%06d' % dtv.microsecond if dtv.microsecond else '') + 'Z'
    sign = 1 if off[0] == '+' else -1
    delta = sign * TD(hours=int(off[1:3]), minutes=int(off[4:6]))
    local = dtv + delta
    return local.strftime('%Y-%m-%dT%H:%M:%S') + ('.%06d' % local.microsecond if local.microsecond else '') + off


def make_options(start, depth, mup):
    from dashlive.server.options.repository import OptionsRepository
    args = {}
    if start is not None:
        args['start'] = start
    if depth is not None:
        args['depth'] = depth
    if mup is not None:
        args['mup'] = mup
    defaults = OptionsRepository.get_default_options()
    opts = OptionsRepository.convert_cgi_options(args, defaults)
    opts.add_field('mode', 'live')
    return opts


def sig(*p):
    return 'C08|' + '|'.join(str(x) for x in p)


def classify_depth(depth):
    if depth is None:
        return 'depth=default'
    v = int(depth)
    return 'depth<0' if v < 0 else ('depth=0' if v == 0 else 'depth>0')


def judge(acc, t, now, start_kind, start, depth, mup, ref, rec):
    """t: DashTiming. Returns AST for constancy checks."""
    ast = t.availabilityStartTime
    pub = t.publishTime
    tsbd = t.timeShiftBufferDepth
    p = t.minimumUpdatePeriod
    elapsed = now - ast
    sub = 'start-subsecond' if (start_kind == 'explicit' and ast.microsecond) else ('start-' + start_kind)
    dcls = classify_depth(depth)

    def bad(clause, text):
        acc.violation(sig(clause, sub, dcls, 'mup' if p else 'no-mup'),
                      f'now={now.isoformat()} start={start} depth={depth} mup={mup} ref={ref}: {text}', rec)
    if ast > now:
        bad('ast>now', f'availabilityStartTime {ast.isoformat()} is after now')
    if not (ast <= pub <= now):
        bad('publishTime-outside[ast,now]', f'publishTime {pub.isoformat()} not within [{ast.isoformat()}, now]')
    if pub.microsecond:
        bad('publishTime-not-whole-second', f'publishTime {pub.isoformat()}')
    if not isinstance(tsbd, int) or tsbd < 0 or TD(seconds=tsbd) > elapsed:
        bad('tsbd-range', f'timeShiftBufferDepth {tsbd} not within [0, {elapsed.total_seconds()}]')
    fat = t.firstAvailableTime
    if fat != elapsed - TD(seconds=tsbd) or fat < TD(0):
        bad('firstAvailableTime', f'firstAvailableTime {fat} != now-AST-TSBD = {elapsed - TD(seconds=tsbd)} or negative')
    if p:
        k, rem = divmod(pub - ast, TD(seconds=p))
        if rem != TD(0) or k < 0:
            bad('publishTime-not-ast+k*p', f'publishTime {pub.isoformat()} is not AST {ast.isoformat()} + k x {p}s')
        if not (now - pub < TD(seconds=p + 1)):
            bad('publishTime-lag', f'publishTime lags now by {(now - pub).total_seconds()} s (p={p})')
    if start_kind in SYMBOLIC:
        if elapsed < TD(seconds=60):
            bad('younger-than-a-minute', f'stream age {elapsed.total_seconds()} s')
        if start_kind == 'now' and ast != now.replace(microsecond=0) - TD(seconds=60):
            bad('now-not-60s-behind', f'AST {ast.isoformat()}')
    return ast, pub


def work(arg):
    tier, start_kind, start_param, depths, mups = arg
    from dashlive.mpeg.dash.timing import DashTiming
    from dashlive.mpeg.dash.reference import StreamTimingReference
    acc = core.Acc()
    nows = instants(tier)
    refs = REFS[:4] if tier != 'quick' else (REFS[0], REFS[3])
    for depth, mup, ref in itertools.product(depths, mups, refs):
        sref = StreamTimingReference(media_name='x', media_duration=ref[0], num_media_segments=ref[0] // ref[2],
                                     segment_duration=ref[2], timescale=ref[1])
        prev_pub = None
        prev_now = None
        day_ast = {}
        for now in nows:
            if start_kind == 'explicit':
                delta, off = start_param
                start = fmt_start(now - delta, off)
            else:
                start = start_kind
            rec = {'now': now.isoformat(), 'start_kind': start_kind, 'start': start, 'depth': depth, 'mup': mup,
                   'ref': list(ref)}
            acc.count('evaluations')
            try:
                opts = make_options(start, depth, mup)
                t = DashTiming(now, sref, opts)
            except Exception as e:
                acc.violation(sig('raises', type(e).__name__, 'start-' + start_kind, classify_depth(depth)),
                              f'now={now.isoformat()} start={start} depth={depth} mup={mup}: {type(e).__name__}: {e}', rec)
                continue
            ast, pub = judge(acc, t, now, start_kind, start, depth, mup, ref, rec)
            if start_kind != 'explicit':
                if prev_pub is not None and pub < prev_pub:
                    div = 'mup-divides-day' if (t.minimumUpdatePeriod and 86400 % t.minimumUpdatePeriod == 0) else \
                        ('no-mup' if not t.minimumUpdatePeriod else 'mup-not-dividing-day')
                    acc.violation(sig('publishTime-decreases', 'start-' + start_kind, div),
                                  f'start={start} depth={depth} mup={mup} ref={ref}: publishTime {prev_pub.isoformat()} at '
                                  f'now={prev_now.isoformat()} but {pub.isoformat()} at now={now.isoformat()}',
                                  dict(rec, prev_now=prev_now.isoformat()))
                prev_pub, prev_now = pub, now
                if start_kind != 'now' and (now.hour, now.minute) != (0, 0):
                    key = now.date()
                    if key in day_ast and day_ast[key][0] != ast:
                        acc.violation(sig('not-constant-within-day', 'start-' + start_kind),
                                      f'start={start}: resolves to {day_ast[key][0].isoformat()} and to {ast.isoformat()} '
                                      f'on {key}', dict(rec, other_now=day_ast[key][1]))
                    day_ast.setdefault(key, (ast, now.isoformat()))
            near = (now.hour, now.minute) in ((0, 0), (0, 1), (23, 58), (23, 59))
            if near or start_kind == 'explicit' or t.minimumUpdatePeriod:
                acc.nontriv((now.isoformat(), start, depth, mup, ref))
            acc.outcome((start_kind, depth, mup, t.timeShiftBufferDepth if t.timeShiftBufferDepth < 100 else 'big'))
    acc.counts['transitions'] = acc.counts['evaluations']
    acc.counts['states_compacted'] += acc.counts['evaluations']
    return acc.compact()


def accepted_values():
    """Send each option value once through the manifest endpoint; drop what it refuses."""
    w = W.World.shared()
    W.set_now('2024-03-01T12:00:00Z')
    dropped = []
    depths, mups = [], []
    for d in DEPTHS:
        r = w.get('/dash/live/bbb/hand_made.mpd' + crawl.make_query({} if d is None else {'depth': d}), timeout=5)
        (depths if r.status == 200 else dropped).append(d if r.status == 200 else f'depth={d}:{r.status or "UNBOUNDED"}')
    for m in MUPS:
        r = w.get('/dash/live/bbb/hand_made.mpd' + crawl.make_query({'depth': '30'} if m is None else {'depth': '30', 'mup': m}))
        (mups if r.status == 200 else dropped).append(m if r.status == 200 else f'mup={m}:{r.status}')
    return depths, mups, dropped


NO_MUP_TEMPLATES = ('manifest_b', 'manifest_ef', 'manifest_vod_aiv')


def http_conformance(arg):
    """Rendered manifests carry the values the pure driver computes."""
    start, depth, mup = arg[:3]
    template = arg[3] if len(arg) > 3 else 'hand_made'
    only_now = arg[4] if len(arg) > 4 else None
    from dashlive.mpeg.dash.timing import DashTiming
    w = W.World.shared()
    w.begin_item()
    acc = core.Acc()
    with w.appctx():
        sref = w.models.Stream.get(directory='bbb').timing_reference
    for now in (instants('quick')[::17] if template == 'hand_made' else instants('quick')[5::51]):
        if only_now is not None and now.isoformat() != only_now:
            continue
        W.set_now(now)
        s = start if start in SYMBOLIC else fmt_start(now - TD(seconds=61), start)
        q = {'start': s}
        if depth is not None:
            q['depth'] = depth
        if mup is not None:
            q['mup'] = mup
        url = f'/dash/live/bbb/{template}.mpd' + crawl.make_query(q)
        r = w.get(url)
        acc.count('evaluations')
        acc.count('transitions')
        if r.status != 200:
            acc.outcome(('http', r.status))
            continue
        acc.count('traces')
        doc = mpd.Mpd(r.body, 'http://localhost' + url.split('?')[0])
        # (a template without the attribute does not take the option either)
        t = DashTiming(W.get_now(), sref, make_options(s, depth, None if template in NO_MUP_TEMPLATES else mup))
        rec = {'kind': 'http', 'now': now.isoformat(), 'url': url, 'arg': [start, depth, mup, template]}
        want = (t.availabilityStartTime, t.publishTime, t.timeShiftBufferDepth, t.minimumUpdatePeriod)
        got = (doc.ast, doc.publish_time, None if doc.tsbd is None else int(doc.tsbd),
               None if doc.mup is None else int(doc.mup))
        if template in NO_MUP_TEMPLATES and got[3] is None:
            # these templates have no minimumUpdatePeriod attribute at all; the statement's mup clause is conditional
            want = want[:3] + (None,)
        if got != want:
            acc.violation(sig('http-differs-from-pure', template), f'{url} at {now.isoformat()}: manifest says {got}, DashTiming {want}', rec)
        acc.state(('http', url, now.isoformat()))
    return acc


def run(ctx):
    depths, mups, dropped = accepted_values()
    items = []
    for s in SYMBOLIC:
        items.append((ctx.tier, s, None, depths, mups))
    deltas = EXPLICIT_DELTAS if not ctx.quick else EXPLICIT_DELTAS[:6] + EXPLICIT_DELTAS[7:8]
    for di, delta in enumerate(deltas):
        for off in (OFFSETS if not ctx.quick else OFFSETS[:2]):
            if off != 'Z' and di not in (1, 3, 6):
                continue        # non-UTC offsets on three representative deltas
            items.append((ctx.tier, 'explicit', (delta, off), depths, mups))
    # split big items by depth to balance
    split = []
    for it in items:
        for d in it[3]:
            split.append((it[0], it[1], it[2], [d], it[4]))
    ctx.merge_all(ctx.pmap(work, split))
    from props import c05
    conf = [(s, d, m, t) for s in ('epoch', 'today', 'now', 'Z', '+01:00') for d in (None, '30') for m in (None, '4', '-1')
            for t in c05.TEMPLATES]
    ctx.merge_all(ctx.pmap(http_conformance, conf))
    ctx.acc.counts['traces'] += ctx.acc.counts['evaluations']
    ctx.extra.update(instants=len(instants(ctx.tier)), days=len(days(ctx.tier)), depths=depths, mups=mups,
                     dropped_by_http=dropped, refs=[list(r) for r in (REFS[:4] if not ctx.quick else (REFS[0], REFS[3]))],
                     explicit_deltas_s=[d.total_seconds() for d in deltas],
                     levels_completed='complete product of the stated alphabets')


def replay(record):
    acc = core.Acc()
    if record.get('kind') == 'http':
        if 'arg' not in record:
            return []
        a = http_conformance(tuple(record['arg']) + (record['now'],))
        return [(s_, v[0]['what']) for s_, v in a.viol.items()]
    from dashlive.mpeg.dash.timing import DashTiming
    from dashlive.mpeg.dash.reference import StreamTimingReference
    ref = tuple(record['ref'])
    sref = StreamTimingReference(media_name='x', media_duration=ref[0], num_media_segments=ref[0] // ref[2],
                                 segment_duration=ref[2], timescale=ref[1])
    out = []
    if 'other_now' in record:
        asts = []
        for n in (record['other_now'], record['now']):
            t = DashTiming(datetime.datetime.fromisoformat(n), sref, make_options(record['start'], record['depth'], record['mup']))
            asts.append(t.availabilityStartTime)
        if asts[0] != asts[1]:
            return [(sig('not-constant-within-day', 'start-' + record['start_kind']),
                     f'{record["start"]} resolves to {asts[0].isoformat()} at {record["other_now"]} and to {asts[1].isoformat()} '
                     f'at {record["now"]}')]
        return []
    nows = [record['now']] if 'prev_now' not in record else [record['prev_now'], record['now']]
    prev = None
    for n in nows:
        now = datetime.datetime.fromisoformat(n)
        start = record['start']
        try:
            t = DashTiming(now, sref, make_options(start, record['depth'], record['mup']))
        except Exception as e:
            return [(sig('raises', type(e).__name__, 'start-' + record['start_kind'], classify_depth(record['depth'])), str(e))]
        judge(acc, t, now, record['start_kind'], start, record['depth'], record['mup'], ref, record)
        if prev is not None and t.publishTime < prev:
            div = 'mup-divides-day' if (t.minimumUpdatePeriod and 86400 % t.minimumUpdatePeriod == 0) else \
                ('no-mup' if not t.minimumUpdatePeriod else 'mup-not-dividing-day')
            out.append((sig('publishTime-decreases', 'start-' + record['start_kind'], div), 'publishTime decreased'))
        prev = t.publishTime
    return out + [(s, v[0]['what']) for s, v in acc.viol.items()]
