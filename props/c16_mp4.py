"""C16 part 2 - corrupt or truncated MP4 input is answered with a reported parse error / 4xx.

Seeds: a synthetic init segment, a clear and an encrypted media fragment, a 3-fragment file.
Mutants (all of them, no sampling): every truncation length, every single-bit flip of every box
header and FullBox header byte (of every byte for the init segment), every box size field set to
each of {0, 1, 7, 8, size-1, size+1, 2^31, 2^32-1}.
Direct: Mp4Atom.load eager and lazy, then encode() and toJSON() - must finish within the budget
and raise nothing but Exception. HTTP: upload -> index -> media info -> segment info -> manifest
-> first segment, and /media/inspect - no 5xx, no unhandled exception.
"""
from __future__ import annotations

import datetime
import io
import signal
import struct

from mc import bmff, core, mgmt, synth, world as W

NOW = datetime.datetime(2024, 3, 1, 12, 0, 3, 500000, tzinfo=datetime.timezone.utc)
BUDGET_S = 5.0


def seeds():
    init = synth.patched_init('video', False, 1000, 1)
    enc_init = synth.patched_init('video', True, 1000, 1, 8)
    clear = synth.make_fragment(1, 1, 0, [1000, 1000], [40, 41], synth.payload_bytes(1, 1, 81), file_offset=0)
    enc = synth.make_fragment(1, 1, 0, [1000, 1000], [40, 41], synth.payload_bytes(2, 1, 81), file_offset=0,
                              encrypted=True, iv_size=8, subsamples=True)
    whole = synth.make_file(kind='video', timescale=1000, durations=(1000, 1000, 1000), file_id=31)
    return {'init': init, 'clear-fragment': clear, 'cenc-fragment': enc, 'file3': whole, 'cenc-init': enc_init}


def header_bytes(data: bytes):
    """Offsets of box header bytes and FullBox version/flags bytes (by the independent walker)."""
    out = set()
    FULL = {b'mvhd', b'tkhd', b'mdhd', b'hdlr', b'vmhd', b'smhd', b'dref', b'stsd', b'stts', b'stsc', b'stsz', b'stco',
            b'mehd', b'trex', b'mfhd', b'tfhd', b'tfdt', b'trun', b'saiz', b'saio', b'senc', b'sidx', b'emsg', b'pssh',
            b'tenc', b'schm', b'url ', b'elst'}
    try:
        root = bmff.parse(data)
    except bmff.Malformed:
        return sorted(range(min(len(data), 64)))
    for b in root.walk():
        if b.type == b'root':
            continue
        for i in range(b.start, min(b.start + b.hdr, len(data))):
            out.add(i)
        if b.type in FULL:
            for i in range(b.start + b.hdr, min(b.start + b.hdr + 4, len(data))):
                out.add(i)
    return sorted(out)


def size_fields(data: bytes):
    try:
        root = bmff.parse(data)
    except bmff.Malformed:
        return []
    return [(b.start, b.size) for b in root.walk() if b.type != b'root']


def mutants(name: str, data: bytes, tier: str):
    """-> iterator of (label, bytes)"""
    for n in range(len(data)):
        yield (f'trunc@{n}', data[:n])
    flip_at = range(len(data)) if name in ('init', 'cenc-init') and tier != 'quick' else header_bytes(data)
    for i in flip_at:
        for bit in range(8):
            m = bytearray(data)
            m[i] ^= 1 << bit
            yield (f'flip@{i}.{bit}', bytes(m))
    for pos, size in size_fields(data):
        for v in (0, 1, 7, 8, size - 1, size + 1, 2 ** 31, 2 ** 32 - 1):
            if v < 0 or v == size:
                continue
            m = bytearray(data)
            struct.pack_into('>I', m, pos, v)
            yield (f'size@{pos}={v}', bytes(m))
    # structural faults that keep the file well nested: a box renamed (one bit of its type), a box removed with the sizes
    # of its ancestors repaired
    try:
        root = bmff.parse(data)
    except bmff.Malformed:
        return

    def chains(node, chain):
        for c in node.children:
            yield chain + [c]
            yield from chains(c, chain + [c])
    for chain in chains(root, []):
        b = chain[-1]
        for i in range(4):
            m = bytearray(data)
            m[b.start + 4 + i] ^= 1
            yield (f'retype@{b.start}.{i}', bytes(m))
        m = bytearray(data)
        for anc in chain[:-1]:
            if not anc.long_header:
                struct.pack_into('>I', m, anc.start, anc.size - b.size)
        del m[b.start:b.end]
        yield (f'drop@{b.start}', bytes(m))


class _Timeout(BaseException):
    pass


def _alarm(signum, frame):
    raise _Timeout()


def parse_one(data: bytes, lazy: bool, iv_size=None, expect_ok=False):
    """-> None | (class, text)"""
    from dashlive.mpeg import mp4
    from dashlive.utils.buffered_reader import BufferedReader
    # the budget is CPU time of this process, so a loaded machine does not make a parse "unbounded"
    old = signal.signal(signal.SIGPROF, _alarm)
    signal.setitimer(signal.ITIMER_PROF, BUDGET_S)
    try:
        try:
            opts = mp4.Options(lazy_load=lazy, mode='rw')
            if iv_size:
                opts.iv_size = iv_size
            atoms = mp4.Mp4Atom.load(BufferedReader(None, data=data), options=opts, use_wrapper=True)
            atoms.encode()
            atoms.toJSON()
        except _Timeout:
            return ('unbounded', f'no result within {BUDGET_S}s')
        except Exception as e:
            if expect_ok:
                return ('seed-rejected', f'{type(e).__name__}: {e}')
            return None         # a reported parse error
        except BaseException as e:      # SystemExit, KeyboardInterrupt, GeneratorExit ...
            return (f'non-Exception|{type(e).__name__}', str(e)[:100])
    finally:
        signal.setitimer(signal.ITIMER_PROF, 0)
        signal.signal(signal.SIGPROF, old)
    return None


def direct_item(arg):
    name, lo, hi, tier = arg
    acc = core.Acc()
    data = seeds()[name]
    iv = 8 if 'cenc' in name else None
    for lazy in (False, True):
        res = parse_one(data, lazy, iv, expect_ok=True)
        if res is not None:        # non-vacuity: the harness must be able to parse the unmodified seed
            raise core.HarnessError(f'seed {name} does not parse in the direct harness: {res}')
    for i, (label, m) in enumerate(mutants(name, data, tier)):
        if i < lo:
            continue
        if i >= hi:
            break
        for lazy in (False, True):
            acc.count('evaluations')
            acc.count('transitions')
            res = parse_one(m, lazy, iv)
            if res is not None:
                acc.violation(f'C16|mp4|parser|{res[0]}|{"lazy" if lazy else "eager"}',
                              f'{name} {label} ({len(m)} bytes), lazy_load={lazy}: {res[1]}',
                              {'kind': 'mp4-direct', 'seed': name, 'label': label, 'lazy': lazy})
        acc.state((name, label))
        acc.nontriv((name, label))
    return acc


def count_mutants(name, tier):
    return sum(1 for _ in mutants(name, seeds()[name], tier))


class Env:
    _inst = None

    @classmethod
    def get(cls):
        if cls._inst is None:
            cls._inst = Env()
        return cls._inst

    def __init__(self):
        W.set_now(NOW)
        self.w = mgmt.build_world()
        self.w.reset()
        self.I = mgmt.ids(self.w)
        self.rc = mgmt.RoleClient(self.w, 'media')
        self.rc.login()
        self.snap = self.w.snapshot()
        self.cookies = self.rc.cookies_snapshot()


def fresh_tokens(env):
    r = env.w.request('GET', '/streams?ajax=1', client=env.rc.client)
    return r.json()['csrf_tokens']


def http_item(arg):
    name, labels, tier = arg
    env = Env.get()
    acc = core.Acc()
    data = seeds()[name]
    wanted = set(labels)
    spk = env.I['streams']['synirr']
    for label, m in mutants(name, data, tier):
        if label not in wanted:
            continue
        env.w.restore(env.snap)
        env.rc.cookies_restore(env.cookies)
        W.set_now(NOW)
        rec = {'kind': 'mp4-http', 'seed': name, 'label': label}

        def judge(step, r):
            acc.count('evaluations')
            acc.count('transitions')
            if r.unbounded:
                acc.violation(f'C16|mp4|http|{step}|UNBOUNDED', f'{name} {label}: {step} did not answer', rec)
                return False
            if r.status >= 500 or r.exc is not None:
                acc.violation(f'C16|mp4|http|{step}|{W.crash_signature(r.exc) if r.exc else r.status}',
                              f'{name} {label} ({len(m)} bytes): {step} answered {r.status} {W.crash_signature(r.exc)}', rec)
                return False
            acc.outcome((step, r.status))
            return True
        toks = fresh_tokens(env)
        # the body of a complete file: init + fragment seeds are uploaded as they are
        body = m if name in ('file3',) else (seeds()['init'] + m if 'fragment' in name else m)
        r = env.w.request('POST', f'/media/{spk}/blob', client=env.rc.client, content_type='multipart/form-data',
                          data={'csrf_token': toks['upload'], 'ajax': '1', 'file': (io.BytesIO(body), 'mut_v1.mp4', 'video/mp4')})
        acc.state((name, label, 'http'))
        if not judge('upload', r):
            continue
        try:
            mfid = r.json().get('pk')
        except Exception:
            mfid = None
        if mfid:
            r = env.w.request('GET', f'/media/index/{mfid}?ajax=1&csrf_token={toks["files"]}', client=env.rc.client)
            judge('index', r)
            r = env.w.request('GET', f'/stream/{spk}/{mfid}?ajax=1', client=env.rc.client)
            judge('media-info', r)
            r = env.w.request('GET', f'/stream/{spk}/{mfid}', client=env.rc.client)
            judge('media-info-html', r)
            r = env.w.request('GET', f'/stream/{spk}/{mfid}/segments', client=env.rc.client)
            judge('segment-list', r)
            for sn in (0, 1):
                r = env.w.request('GET', f'/stream/{spk}/{mfid}/segment/{sn}', client=env.rc.client)
                judge('segment-info', r)
            for u in ('/dash/vod/synirr/hand_made.mpd', '/dash/live/synirr/hand_made.mpd?depth=30',
                      '/dash/vod/synirr/mut_v1/init.m4v', '/dash/vod/synirr/mut_v1/1.m4v', '/dash/live/synirr/mut_v1/1.m4v',
                      '/dash/odvod/synirr/hand_made.mpd'):
                r = env.w.get(u)
                judge('serve:' + u.split('/')[2] + ':' + u.rsplit('/', 1)[1].split('?')[0], r)
            acc.nontriv((name, label, 'http'))
        # /media/inspect is an async view, which this sandbox cannot run (asgiref is not installed): its synchronous
        # part is driven inside a request context instead
        acc.count('evaluations')
        acc.count('transitions')
        try:
            from dashlive.server.requesthandler.media_management import InspectMediaFile
            with env.w.app.test_request_context('/media/inspect', method='POST', content_type='multipart/form-data',
                                                data={'file': (io.BytesIO(body), 'mut_v1.mp4', 'video/mp4')}):
                old = signal.signal(signal.SIGPROF, _alarm)
                signal.setitimer(signal.ITIMER_PROF, 10.0)
                try:
                    import contextlib
                    with contextlib.redirect_stdout(io.StringIO()):
                        resp = InspectMediaFile().show_uploaded_file()
                    acc.outcome(('inspect', getattr(resp, 'status_code', 200)))
                finally:
                    signal.setitimer(signal.ITIMER_PROF, 0)
                    signal.signal(signal.SIGPROF, old)
        except _Timeout:
            acc.violation('C16|mp4|http|inspect|UNBOUNDED', f'{name} {label}: inspect did not finish', rec)
        except Exception as e:
            import traceback
            sig = W.crash_signature((type(e).__name__, traceback.format_exc()))
            acc.violation(f'C16|mp4|http|inspect|{sig}', f'{name} {label} ({len(m)} bytes): inspecting the upload raised {sig}', rec)
    env.w.restore(env.snap)
    return acc


def dispatch(kind, arg):
    return direct_item(arg) if kind == 'mp4-direct' else http_item(arg)


def plan(ctx):
    tier = ctx.tier
    items = []
    counts = {}
    http_labels = {}
    for name, data in seeds().items():
        n = count_mutants(name, tier)
        counts[name] = n
        for lo in range(0, n, 400):
            items.append(("mp4-direct", (name, lo, lo + 400, tier)))
        # HTTP: every size-field edit, every truncation at a box boundary +-1 (all truncations thorough),
        # every flip of bit 0 and bit 7 of each header byte (all flips thorough)
        bounds = set()
        for pos, size in size_fields(data):
            bounds |= {pos - 1, pos, pos + 1, pos + 7, pos + 8, pos + size - 1}
        labs = []
        for label, _ in mutants(name, data, tier):
            if label.startswith('size@'):
                labs.append(label)
            elif label.startswith('trunc@'):
                if tier != 'quick' or int(label[6:]) in bounds:
                    labs.append(label)
            elif label.startswith(('retype@', 'drop@')):
                labs.append(label)
            elif label.startswith('flip@'):
                if tier == 'quick' and name != 'clear-fragment':
                    continue
                bit = int(label.rsplit('.', 1)[1])
                if tier != 'quick' or bit in (0, 7):
                    labs.append(label)
        if tier == 'quick':
            keep = [x for x in labs if x.startswith(('retype@', 'drop@'))]
            labs = [x for x in labs if not x.startswith(('retype@', 'drop@'))]
            labs = [x for i, x in enumerate(labs) if i % 3 == (0 if name == 'file3' else i % 3) or x.startswith('size@')]
            if name == 'file3':
                labs = labs[::2]
            # structural faults: all of them for the complete file, drops only for the fragments
            labs += [x for x in keep if name == 'file3' or x.startswith('drop@')]
        if name in ('cenc-init',):
            labs = []       # the management surface takes complete files; covered by 'init' and the cenc fragment
        http_labels[name] = len(labs)
        for ch in core.chunks(labs, 12):
            items.append(('mp4-http', (name, ch, tier)))
    extra = {'mp4_mutants_direct': counts, 'mp4_mutants_http': http_labels,
             'mp4_levels': 'MP4: every truncation, header bit flip and size edit of 5 seeds parsed eager+lazy; '
                           + ('size edits, boundary truncations and bit 0/7 flips' if tier == 'quick' else 'all of them')
                           + ' through upload/index/info/serve/inspect'}
    return items, extra


def replay(record):
    if record['kind'] == 'mp4-direct':
        data = seeds()[record['seed']]
        for label, m in mutants(record['seed'], data, 'thorough'):
            if label == record['label']:
                res = parse_one(m, record['lazy'], 8 if 'cenc' in record['seed'] else None)
                if res:
                    return [(f'C16|mp4|parser|{res[0]}|{"lazy" if record["lazy"] else "eager"}', res[1])]
        return []
    a = http_item((record['seed'], [record['label']], 'thorough'))
    return [(s, v[0]['what']) for s, v in a.viol.items()]
