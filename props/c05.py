"""C05 - every manifest response is well-formed, structurally valid DASH.

Bounded-exhaustive product: templates x modes x {single, multi period} x
option vectors (deviation level 1 (2 thorough) over value alphabets chosen
for lexical trouble) x clocks, plus hostile strings injected one position at a
time (stored titles and licence URLs, free-text query options, unknown query
names, Host header). Oracle: non-recovering lxml parse, skeleton invariance
against the same request with a benign string, and the MPD rule set of
mc/mpdrules.py (written from ISO/IEC 23009-1).
"""
from __future__ import annotations

import datetime
import html

from mc import core, crawl, history, mpd, mpdrules, world as W
from mc.explorer import deviation_vectors

ID = 'C05'
LEVEL = 'model_checking'
PREFORK_WORLD = {}
RULE = ('state = (route, template, mode, option vector, clock, injected position, injected string); every vector of '
        'the stated levels is requested; non-trivial = a 200 manifest/patch body that was parsed and checked '
        '(distinct by URL, clock and stored strings); history pairs: state = (session a, session b), every ordered pair, each in a process forked for it')
ASSUMPTIONS = [
    'only 200 responses are judged (a 4xx for a hostile value is fine; 5xx is C16)',
    'id uniqueness is demanded among elements that carry an id',
    'elements outside the MPD namespace are only required to be well-formed',
    'skeleton = element names + attribute names; the hostile request must have the skeleton of the benign one',
]

CLOCKS = ('2024-03-01T12:00:03.500000Z', '2024-02-29T23:59:59.999999Z', '2024-01-01T00:00:30Z')
TEMPLATES = ('hand_made', 'manifest_a', 'manifest_b', 'manifest_e', 'manifest_ef', 'manifest_h', 'manifest_i',
             'manifest_n', 'manifest_vod_aiv')
MODES = ('live', 'vod', 'odvod')
ALPHABET = {
    'depth': [None, '0', '1', '30', '-5', '7200'],
    'mup': [None, '0', '1', '-1', '7'],
    'start': [None, 'epoch', 'today', 'now', '2024-02-29T23:59:59.5Z', '2024-03-01T01:00:00+01:00'],
    'timeline': [None, '1'],
    'patch': [None, '1'],
    'drm': [None, 'all', 'playready-pro', 'clearkey-cenc', 'marlin'],
    'playready__version': [None, '1.0', '4.0'],
    'abr': [None, '0'],
    'acodec': [None, 'ec-3', 'any'],
    'base': [None, '0'],
    'events': [None, 'ping', 'scte35', 'ping,scte35'],
    'ping__inband': [None, '0'],
    'scte35__inband': [None, '0'],
    'time': [None, 'direct', 'head', 'http-ntp', 'iso', 'ntp', 'sntp', 'xsd'],
    'leeway': [None, '0'],
    'drift': [None, '10'],
    'tcodec': [None, 'im1t|etd1'],
}
DEFAULTS = {k: None for k in ALPHABET}
GROUPS = [('depth', 'mup', 'start', 'timeline', 'patch'), ('drm', 'playready__version', 'events', 'ping__inband',
                                                           'scte35__inband'), ('time', 'start', 'mup')]
HOSTILE = ['&', '<', '>', '"', "'", ']]>', '<!--', '&amp;', 'é', '\U0001F600', 'x' * 4096,
           '"/><Injected a="', '</Title><Injected/>']
BENIGN = 'benign'
STREAMS = ('bbb', 'synirr', 'tears')


def vectors(tier):
    out = []
    for lv in ((0, 1) if tier == 'quick' else (0, 1, 2)):
        out += list(deviation_vectors(DEFAULTS, ALPHABET, lv, groups=GROUPS))
    return out


def sig(*p):
    return 'C05|' + '|'.join(str(x) for x in p)


def check_body(acc, rec, template, body, patch=False):
    """-> lxml root or None"""
    try:
        root = mpd.strict_parse(body)
    except Exception as e:
        acc.violation(sig('not-well-formed', template, rec.get('position', 'plain')),
                      f'{rec["url"]} at {rec["now"]}: {type(e).__name__}: {str(e)[:160]}', rec)
        return None
    problems = mpdrules.check_patch(root) if patch else mpdrules.check(root)
    for rule, loc, text in problems:
        acc.violation(sig(rule, template, loc), f'{rec["url"]} at {rec["now"]}: {text}', rec)
    return root


def plain_item(item):
    kind, stream, template, mode, opts, tier = item
    w = W.World.shared()
    w.begin_item()
    acc = core.Acc()
    mps = kind == 'mps'
    url = crawl.manifest_url(mode, stream, template, opts, mps=mps)
    for ci, clock in enumerate(CLOCKS):
        W.set_now(clock)
        r = w.get(url)
        acc.count('evaluations')
        acc.count('transitions')
        acc.state((url, clock))
        acc.outcome((kind, mode, r.status))
        if r.status != 200:
            continue
        acc.count('traces')
        acc.nontriv((url, clock))
        rec = {'kind': kind, 'url': url, 'now': clock, 'template': template}
        root = check_body(acc, rec, template, r.body)
        if root is None or opts.get('patch') != '1' or mode != 'live':
            continue
        pl = root.find(mpd.Q + 'PatchLocation')
        if pl is None or not (pl.text or '').strip():
            continue
        ploc = mpd.split_url(html.unescape(pl.text.strip()))
        for delta in (0.5, 9, 100):
            W.set_now(W.get_now() + datetime.timedelta(seconds=delta))
            pr = w.get(ploc)
            acc.count('evaluations')
            acc.count('transitions')
            acc.outcome(('patch', pr.status))
            if pr.status == 200:
                acc.nontriv((ploc, crawl.iso(W.get_now())))
                check_body(acc, {'kind': 'patch', 'url': ploc, 'now': crawl.iso(W.get_now()), 'template': template,
                                 'manifest_url': url, 'manifest_now': clock},
                           template + '.patch', pr.body, patch=True)
    return acc


POSITIONS = ('stream.title', 'mps.title', 'stream.marlin_la_url', 'stream.playready_la_url',
             'q:clearkey__la_url', 'q:marlin__la_url', 'q:playready__la_url', 'q:time_value', 'q:ntp_servers',
             'q:start', 'q:unknown', 'q:acodec', 'q:ping__value', 'q:scte35__value', 'host',
             # the older spellings of the licence URL overrides, read straight from the query by the DRM context
             'q:clearkey_la_url', 'q:marlin_la_url', 'q:playready_la_url')


def set_db(w, position, value):
    models = w.models
    with w.appctx():
        if position.startswith('stream.'):
            st = models.Stream.get(directory='bbb')
            setattr(st, position.split('.')[1], value)
        elif position == 'mps.title':
            m = models.MultiPeriodStream.get(name='testmps')
            m.title = value
        models.db.session.commit()
        models.db.session.remove()


def request_for(position, template, mode, value):
    """-> (url, headers)"""
    q = {}
    headers = None
    mps = False
    if position in ('stream.marlin_la_url', 'stream.playready_la_url', 'q:clearkey__la_url', 'q:marlin__la_url',
                    'q:playready__la_url', 'q:clearkey_la_url', 'q:marlin_la_url', 'q:playready_la_url'):
        q['drm'] = 'all'
    if position == 'mps.title':
        mps = True
    if position.startswith('q:'):
        name = position[2:]
        if name == 'unknown':
            q['zzunknown'] = value
        else:
            q[name] = value
        if name == 'time_value':
            q['time'] = 'xsd'
        if name == 'ntp_servers':
            q['time'] = 'ntp'
        if name in ('ping__value',):
            q['events'] = 'ping'
            q['ping__inband'] = '0'
        if name in ('scte35__value',):
            q['events'] = 'scte35'
            q['scte35__inband'] = '0'
    if position == 'host':
        headers = {'Host': value}
    stream = 'testmps' if mps else 'bbb'
    return crawl.manifest_url(mode, stream, template, q, mps=mps), headers


def hostile_item(item):
    position, template, mode = item
    w = W.World.shared()
    w.begin_item()
    acc = core.Acc()
    clock = CLOCKS[0]
    W.set_now(clock)
    db = position.startswith('stream.') or position == 'mps.title'

    def fetch(value):
        if db:
            set_db(w, position, value)
        url, headers = request_for(position, template, mode, value)
        base = 'http://localhost'
        if position == 'host':
            r = w.request('GET', url, headers=None, base_url='http://' + value)
        else:
            r = w.get(url)
        acc.count('evaluations')
        acc.count('transitions')
        return url, r
    try:
        burl, br = fetch(BENIGN if position != 'host' else 'benign.example')
        if br.status != 200:
            acc.outcome(('benign', position, br.status))
            return acc
        try:
            bskel = mpdrules.skeleton(mpd.strict_parse(br.body))
        except Exception:
            return acc      # plain_item reports it
        for hv in HOSTILE:
            value = hv if position != 'host' else hv + '.example'
            try:
                url, r = fetch(value)
            except Exception as e:
                acc.outcome(('client-refused', position, type(e).__name__))
                continue
            acc.state((position, template, mode, hv[:8], len(hv)))
            acc.outcome((position, r.status))
            if r.status != 200:
                continue
            acc.count('traces')
            acc.nontriv((position, template, mode, hv[:8], len(hv)))
            cls = 'long' if len(hv) > 1000 else ('markup' if any(c in hv for c in '<>&"\'') else 'unicode')
            rec = {'kind': 'hostile', 'position': position, 'template': template, 'mode': mode, 'value': hv,
                   'url': url, 'now': clock}
            try:
                root = mpd.strict_parse(r.body)
            except Exception as e:
                acc.violation(sig('injection-breaks-document', position, cls),
                              f'{position}={hv[:40]!r} in {template} ({mode}): response is not well-formed: '
                              f'{str(e)[:120]}', rec)
                continue
            if mpdrules.skeleton(root) != bskel:
                acc.violation(sig('injection-changes-structure', position, cls),
                              f'{position}={hv[:40]!r} in {template} ({mode}): element/attribute skeleton differs from '
                              f'the benign request', rec)
    finally:
        if db:
            w.reset()
    return acc


def _dispatch(item):
    return plain_item(item[1]) if item[0] == 'plain' else hostile_item(item[1])


def plan(tier):
    items = []
    vecs = vectors(tier)
    for stream in STREAMS:
        for template in TEMPLATES:
            for mode in MODES:
                for v in vecs:
                    if stream != 'bbb' and (len(v) > 0 and (tier == 'quick' or len(v) > 1)):
                        continue
                    if mode != 'live' and any(k in v for k in ('depth', 'mup', 'start', 'patch', 'time', 'leeway', 'drift')):
                        continue
                    if tier == 'quick' and len(v) == 1 and template not in ('hand_made', 'manifest_e', 'manifest_n') \
                            and list(v)[0] not in ('drm', 'events', 'timeline', 'depth', 'time'):
                        continue
                    items.append(('plain', ('dash', stream, template, mode, dict(v), tier)))
    for template in TEMPLATES:
        for mode in ('live', 'vod'):
            for v in vecs:
                if len(v) > 1 or (len(v) == 1 and list(v)[0] not in ('depth', 'timeline', 'drm', 'start', 'mup', 'events')):
                    continue
                items.append(('plain', ('mps', 'testmps', template, mode, dict(v), tier)))
    for position in POSITIONS:
        for template in TEMPLATES:
            for mode in MODES:
                if position == 'mps.title' and mode == 'odvod':
                    continue
                items.append(('hostile', (position, template, mode)))
    return items


def history_alphabet(tier):
    """Manifest requests for the differential history oracle (mc/history.py): every template x mode with default options,
    and every single option deviation on hand_made (live)."""
    out = []
    now = CLOCKS[0]
    for template in TEMPLATES:
        for mode in MODES:
            out.append((f'{template}|{mode}|default', crawl.manifest_url(mode, 'bbb', template, {}), now, True))
    for name, vals in ALPHABET.items():
        for v in vals:
            if v is None:
                continue
            if tier == 'quick' and v != [x for x in vals if x is not None][0]:
                continue
            out.append((f'hand_made|live|{name}={v}', crawl.manifest_url('live', 'bbb', 'hand_made', {name: v}), now, True))
    return out


def run(ctx):
    # histories first: these workers only fork, so that every pair starts from a process that has served nothing
    alpha = history_alphabet(ctx.tier)
    ctx.merge_all(ctx.pmap(history.pair_item, [('C05', a, alpha) for a in range(len(alpha))]))
    ctx.extra.update(history_alphabet=[a[0] for a in alpha], history_pairs=len(alpha) * (len(alpha) - 1))
    items = plan(ctx.tier)
    ctx.merge_all(ctx.pmap(_dispatch, items, chunksize=2))
    ctx.extra.update(work_items=len(items), vectors=len(vectors(ctx.tier)), alphabet=ALPHABET,
                     hostile_strings=[h if len(h) < 40 else f'{h[:8]}...({len(h)} chars)' for h in HOSTILE],
                     positions=list(POSITIONS), clocks=list(CLOCKS),
                     levels_completed='deviation level <= 1' + ('' if ctx.quick else ' and level 2 inside interaction groups')
                                      + '; every hostile string x position x template x mode')


def replay(record):
    acc = core.Acc()
    w = W.World.shared()
    if record.get('kind') == 'history-pair':
        a = history.run_forked(history.pair_item, ('C05', 0, [tuple(record['a']), tuple(record['b'])]))
        return [(s, v[0]['what']) for s, v in a.viol.items()]
    if record.get('kind') == 'hostile':
        a = hostile_item((record['position'], record['template'], record['mode']))
        return [(s, v[0]['what']) for s, v in a.viol.items()]
    if record.get('kind') == 'patch':
        W.set_now(record['manifest_now'])
        w.get(record['manifest_url'])
        W.set_now(record['now'])
        r = w.get(record['url'])
        if r.status == 200:
            check_body(acc, record, record['template'], r.body, patch=True)
        return [(s, v[0]['what']) for s, v in acc.viol.items()]
    W.set_now(record['now'])
    r = w.get(record['url'])
    if r.status == 200:
        check_body(acc, record, record['template'], r.body)
    return [(s, v[0]['what']) for s, v in acc.viol.items()]
