"""C16 - no request causes an uncontrolled failure; injected errors fire exactly as asked.

Three explorations:
 1. hostile requests: every route instance x every registered option name x a hostile value
    alphabet (deviation level 1; level 2 inside option groups, thorough) x streams with missing
    pieces: status < 500, no unhandled exception, answer within the watchdog;
 2. corrupt MP4: every truncation, every single-bit flip of box headers, every size-field edit of
    small seeds fed to the parser and to the upload/index/inspect endpoints (props/c16_mp4.py);
 3. injected errors: TLA+ model `ErrInject` checked by TLC, all paths and all edges replayed
    through HTTP (props/c16_inject.py).
"""
from __future__ import annotations

import datetime
import re

from mc import core, crawl, world as W

ID = 'C16'
LEVEL = 'model_checking'
PREFORK_WORLD = {'extras': True}
RULE = ('state = (route instance, option assignment, header) for the hostile sweep, one mutant for the MP4 sweep, one '
        'TLC state for the injection model; transition = one request / parse / replayed edge; non-trivial = a request '
        'that the service answered with 4xx or a requested synthetic error, a mutant the parser rejected, or a model '
        'edge compared with the implementation')
ASSUMPTIONS = [
    'a 5xx whose body is the service\'s "Synthetic <code> for ..." text, with <code> named by an error-injection '
    'parameter of that very request and no captured exception, is a requested error (judged by exploration 3)',
    'crash signature = (exception type, innermost frame under the repository: file, function) - no line numbers',
    'unbounded = no answer within 10 s of CPU time of the worker (typical request: 5-15 ms; wall-clock backstop 300 s)',
    'for direct parser calls a reported parse error is any Exception raised in bounded time',
]
NOW = datetime.datetime(2024, 3, 1, 12, 0, 3, 500000, tzinfo=datetime.timezone.utc)

VALUES = ['', 'none', '0', '-1', '1.5', 'abc', '1e9', '9' * 30, '2147483647', '-2147483647', 'PT5S', '503=PT5S', '\u00b2', '503=\u00b2', '\u0663', 'a,b', '=', '503=', '503=abc', '503=5', '99:99:99Z',
          '2024-13-45T00:00:00Z', '%00', 'x' * 4096, 'unknown-drm', 'playready-nowhere', 'true', '12:00:04Z',
          '404=12:00:04Z', '503=5,404=6', '-5', '2024-03-01T00:00:00Z', '[1]', '{"a":1}', '1,2,3', 'é',
          'all', 'playready', 'clearkey-moov', 'ping', 'scte35', 'ec-3', 'xsd', 'ntp', '1', 'epoch', 'now']


def boundary_routes():
    """Every numeric path parameter at the powers of two where a width ends, each with its two neighbours (a comparison
    written <= instead of < lets exactly one value through). Requested once each, without options."""
    bounds = ['0', '99999999', '9' * 22] + [str(2 ** k + d) for k in (15, 16, 31, 32, 63, 64) for d in (-1, 0, 1)]
    out = []
    for big in bounds:
        for mode in ('live', 'vod'):
            out += [('media', f'/dash/{mode}/bbb/bbb_v7/{big}.m4v'), ('media', f'/dash/{mode}/bbb/bbb_a1/time/{big}.m4a'),
                    ('mps-media', f'/mps/{mode}/testmps/1/bbb_v7/{big}.m4v'), ('mps-media', f'/mps/{mode}/testmps/1/bbb_v7/time/{big}.m4v'),
                    ('mps-media', f'/mps/{mode}/testmps/{big}/bbb_v7/2.m4v'), ('mps-media', f'/mps/{mode}/testmps/{big}/bbb_v7/init.m4v'),
                    ('mps-media', f'/mps/{mode}/testmps/{big}/bbb_v7/time/960.m4v')]
        out += [('html', f'/stream/{big}'), ('html', f'/stream/1/{big}'), ('html', f'/stream/{big}/1'), ('html', f'/stream/1/1/segment/{big}'),
                ('patch', f'/patch/bbb/hand_made/{big}'), ('html', f'/key/{big}'), ('html', f'/key/{big}/delete'),
                ('html', f'/media/index/{big}'), ('api', f'/api/users/{big}'), ('html', f'/stream/{big}/defaults'),
                ('html', f'/stream/{big}/delete'), ('html', f'/stream/1/{big}/delete'), ('html', f'/stream/1/{big}/edit')]
    return out


def bare_item(arg):
    routes, tier = arg
    w = W.World.shared(extras=True)
    w.begin_item()
    acc = core.Acc()
    W.set_now(NOW)
    for kind, path in routes:
        r = w.get(path)
        acc.state((path,))
        judge(acc, kind, path, None, r, {'kind': 'hostile', 'rkind': kind, 'url': path, 'option': 'path-boundary'})
    return acc


# the ends of the integer widths the boxes and descriptors behind the options have, each with its neighbours
WIDTHS = [str(2 ** k + d) for k in (8, 16, 32, 33) for d in (-1, 0, 1)]


def route_instances():
    out = []
    for stream in ('bbb', 'synirr', 'synvid', 'synnoref', 'synunidx', 'synempty', 'nosuch'):
        for tmpl in ('hand_made', 'manifest_e', 'manifest_n', 'manifest_vod_aiv', 'nosuch'):
            for mode in ('live', 'vod', 'odvod'):
                if stream not in ('bbb', 'synempty', 'synnoref') and tmpl not in ('hand_made', 'manifest_vod_aiv'):
                    continue
                out.append(('manifest', f'/dash/{mode}/{stream}/{tmpl}.mpd'))
    for stream, f, ext in (('bbb', 'bbb_v7', 'm4v'), ('bbb', 'bbb_a1', 'm4a'), ('bbb', 'bbb_t1', 'mp4'),
                           ('bbb', 'bbb_v7_enc', 'm4v'), ('synunidx', 'synunidx_v2', 'm4v'), ('synnoref', 'synnoref_v1', 'm4v'),
                           ('synvid', 'synvid_v1', 'm4v'), ('bbb', 'nosuch', 'm4v')):
        for mode in ('live', 'vod'):
            out.append(('media', f'/dash/{mode}/{stream}/{f}/init.{ext}'))
            out.append(('media', f'/dash/{mode}/{stream}/{f}/3.{ext}'))
            out.append(('media', f'/dash/{mode}/{stream}/{f}/time/1920.{ext}'))
        out.append(('media', f'/dash/odvod/{stream}/{f}.{ext}'))
    # boundary values of the numeric path parameters (segment number, segment time, period key)
    for mode in ('live', 'vod'):
        for big in ('0', '99999999', '4294967296', '9' * 22):
            out.append(('media', f'/dash/{mode}/bbb/bbb_v7/{big}.m4v'))
            out.append(('media', f'/dash/{mode}/bbb/bbb_a1/time/{big}.m4a'))
            out.append(('mps-media', f'/mps/{mode}/testmps/1/bbb_v7/{big}.m4v'))
            out.append(('mps-media', f'/mps/{mode}/testmps/1/bbb_v7/time/{big}.m4v'))
        out.append(('mps-media', f'/mps/{mode}/testmps/{"9" * 22}/bbb_v7/2.m4v'))
    out += [('media', LIVE_SEG), ('media', VOD_ENC_SEG), ('media', f'/dash/live/bbb/bbb_a1/20.m4a?{LIVE_START}'),
            ('media', f'/dash/live/bbb/bbb_v7_enc/20.m4v?drm=playready&{LIVE_START}')]
    out += [('patch', f'/patch/bbb/hand_made/{v}') for v in ('0', '1', '2147483648', '4294967296', '253402300800', '9' * 20)]
    out += [('patch', '/patch/bbb/hand_made/1709294400'), ('patch', '/patch/bbb/manifest_e/1709294400'),
            ('patch', '/patch/synempty/hand_made/1'), ('mps', '/mps/live/testmps/hand_made.mpd'),
            ('mps', '/mps/vod/testmps/hand_made.mpd'), ('mps', '/mps/vod/nosuch/hand_made.mpd'),
            ('mps', '/mps/vod/mpsbroken/hand_made.mpd'), ('mps', '/mps/live/mpsbroken/hand_made.mpd'),
            ('mps', '/mps/vod/mpsbroken/manifest_e.mpd'), ('mps', '/mps/vod/mpsunidx/hand_made.mpd'),
            ('mps', '/mps/live/mpsunidx/hand_made.mpd'), ('manifest', '/dash/vod/synbroken/hand_made.mpd'),
            ('manifest', '/dash/live/synbroken/hand_made.mpd'), ('media', '/dash/vod/synbroken/synbroken_v1/init.m4v'),
            ('media', '/dash/vod/synbroken/synbroken_v1/1.m4v'), ('media', '/dash/odvod/synbroken/synbroken_v1.m4v'),
            ('mps-media', '/mps/vod/testmps/1/bbb_v7/2.m4v'), ('mps-media', '/mps/live/testmps/1/bbb_v7/init.m4v'),
            ('mps-media', '/mps/vod/testmps/99/bbb_v7/2.m4v'), ('mps-media', '/mps/vod/testmps/1/bbb_v7/time/960.m4v'),
            ('time', '/time/head'), ('time', '/time/xsd'), ('time', '/time/iso'), ('time', '/time/http-ntp'),
            ('html', '/streams'), ('html', '/stream/1'), ('html', '/stream/999'),
            ('html', '/play/live/bbb/hand_made.mpd/index.html'), ('html', '/play/vod/synempty/hand_made.mpd/index.html'),
            ('html', '/play/mps/live/testmps/hand_made.mpd/index.html'), ('html', '/play/live/bbb/hand_made/index.html'),
            ('html', '/play/vod/bbb/manifest_e/index.html'), ('html', '/play/mps/live/testmps/hand_made/index.html'),
            ('api', '/api/manifests'),
            ('api', '/api/cgiOptions'), ('api', '/api/multi-period-streams'), ('api', '/api/multi-period-streams/testmps'),
            ('api', '/api/multi-period-streams?ajax=1'), ('api', '/api/multi-period-streams/testmps?ajax=1'),
            ('legacy', '/dash/hand_made.mpd'), ('legacy', '/dash/bbb/enc.mpd'), ('legacy', '/dash/synempty/manifest_vod.mpd'),
            ('html', '/stream/1/1'), ('html', '/stream/1/1/segments'), ('html', '/stream/1/1/segment/2'),
            ('html', '/stream/1/1/segment/99')]
    # every segment index around the ends of the table (the file has an init segment and ten media segments)
    out += [('html', f'/stream/1/1/segment/{i}') for i in (0, 1, 9, 10, 11, 12, 13)]
    return out


def with_query(path, opts):
    q = crawl.make_query(opts)
    if not q:
        return path
    return path + ('&' + q[1:] if '?' in path else q)


LIVE_START = 'start=2024-03-01T11:58:00Z'      # NOW is 123.5 s later: live segment 20 (4 s segments) is inside the window


def option_names():
    from dashlive.server.options.repository import OptionsRepository
    names = sorted({o.cgi_name for o in OptionsRepository.get_dash_options()})
    return names + ['zzunknown', 'ajax', 'mode', 'start', 'es5']


_variants = {}


def choice_variants(name):
    """Every value the option registers as a choice, its upper-case / capitalised / padded spellings and its use as the
    head of a structured value."""
    if not _variants:
        from dashlive.server.options.repository import OptionsRepository
        for o in OptionsRepository.get_dash_options():
            vals = []
            for c in (o.cgi_choices or ()):
                v = c[1] if isinstance(c, tuple) else c
                if v is None:
                    continue
                v = str(v)
                # ... and the value used as the head of a structured value (drm=<system>-<location>, lists, code=position)
                for x in (v, v.upper(), v.capitalize(), v + ' ', ' ' + v, v + '-nowhere', v + '-', v + ',nowhere', v + '=nowhere'):
                    if x not in vals:
                        vals.append(x)
            _variants[o.cgi_name] = vals
    return _variants.get(name, [])


SYNTH_RE = re.compile(rb'^Synthetic (\d{3}) for ')


def requested_error(url, resp):
    m = SYNTH_RE.match(resp.body or b'')
    if not m or resp.exc is not None:
        return False
    code = m.group(1).decode()
    return re.search(r'[?&][vatm]err=[^&]*%s' % code, url) is not None


def judge(acc, kind, url, headers, resp, rec):
    acc.count('evaluations')
    acc.count('transitions')
    if resp.unbounded:
        opt = rec.get('option', '?')
        acc.violation(f'C16|UNBOUNDED|option={opt}', f'{url}: no answer within the watchdog', rec)
        return
    if resp.status >= 500 or resp.exc is not None:
        if requested_error(url, resp):
            acc.outcome(('requested-error', resp.status))
            acc.nontriv((url,))
            return
        sig = W.crash_signature(resp.exc) if resp.exc else f'status-{resp.status}-without-exception'
        acc.violation(f'C16|{sig}', f'{url} {headers or ""}: status {resp.status} {sig}', rec)
        return
    acc.outcome((kind, resp.status))
    if 400 <= resp.status < 500:
        acc.nontriv((url, str(headers)))


LIVE_SEG = f'/dash/live/bbb/bbb_v7/20.m4v?{LIVE_START}'
VOD_ENC_SEG = '/dash/vod/bbb/bbb_v7_enc/3.m4v?drm=all'
PRIMARY = ('/dash/live/bbb/hand_made.mpd', '/dash/vod/bbb/hand_made.mpd', LIVE_SEG, '/dash/vod/bbb/bbb_v7/3.m4v',
           VOD_ENC_SEG, '/patch/bbb/hand_made/1709294400', '/mps/live/testmps/hand_made.mpd',
           '/dash/live/synempty/hand_made.mpd', '/dash/vod/synunidx/hand_made.mpd', '/dash/live/synnoref/hand_made.mpd',
           '/time/http-ntp', '/time/xsd')
# these must answer 200 without hostile options, otherwise the option code behind them is never reached (non-vacuity)
MUST_SERVE = ('/dash/live/bbb/hand_made.mpd', '/dash/vod/bbb/hand_made.mpd', LIVE_SEG, '/dash/vod/bbb/bbb_v7/3.m4v', VOD_ENC_SEG,
              '/mps/live/testmps/hand_made.mpd', '/play/live/bbb/hand_made/index.html', '/play/mps/live/testmps/hand_made/index.html',
              '/api/multi-period-streams?ajax=1', '/patch/bbb/hand_made/1709294400', '/mps/vod/testmps/1/bbb_v7/2.m4v')
QUICK_VALUES = ['', 'abc', '9' * 30, '503=', 'all', '1', '2147483647', '-2147483647']


def hostile_item(arg):
    kind, path, names, tier = arg
    w = W.World.shared(extras=True)
    w.begin_item()
    acc = core.Acc()
    W.set_now(NOW)
    values = VALUES if (tier != 'quick' or path in PRIMARY) else QUICK_VALUES
    for name in names:
        for v in values + [x for x in choice_variants(name) if x not in values]:
            url = with_query(path, {name: v})
            r = w.get(url)
            acc.state((path, name, v[:16], len(v)))
            judge(acc, kind, url, None, r, {'kind': 'hostile', 'rkind': kind, 'url': url, 'option': name})
    return acc


PAIRS = [('drm', 'playready__version'), ('drm', 'playready__piff'), ('events', 'ping__interval'), ('events', 'ping__timescale'),
         ('events', 'scte35__interval'), ('verr', 'failures'), ('merr', 'update'), ('vcorrupt', 'frames'),
         ('start', 'depth'), ('start', 'mup'), ('time', 'time_value'), ('time', 'ntp_servers'), ('depth', 'leeway'),
         ('drm', 'bugs'), ('events', 'ping__count'), ('timeline', 'patch')]
PAIR_VALUES = {'drm': ['all', 'playready', 'unknown-drm'], 'events': ['ping', 'scte35', 'ping,scte35', 'abc'],
               'start': ['epoch', 'now', '2024-03-01T00:00:00Z', '2030-01-01T00:00:00Z'], 'time': ['xsd', 'ntp', 'direct', 'abc'],
               'verr': ['503=5', '404=12:00:04Z'], 'merr': ['503=1', '503=12:00:04Z'], 'vcorrupt': ['12:00:04Z', '0'],
               'timeline': ['1'], 'depth': ['30', '0', '-5']}


def all_pairs():
    """The fixed interaction pairs plus (enabling option, every sub-option it unlocks): events=<type> x <type>__*, drm x <system>__*."""
    pairs = list(PAIRS)
    for n in option_names():
        if '__' not in n:
            continue
        prefix = n.split('__')[0]
        p = ('events', n) if prefix in ('ping', 'scte35') else (('drm', n) if prefix in ('playready', 'marlin', 'clearkey') else None)
        if p and p not in pairs:
            pairs.append(p)
    return pairs


def pair_item(arg):
    kind, path, pair, tier = arg
    w = W.World.shared(extras=True)
    w.begin_item()
    acc = core.Acc()
    W.set_now(NOW)
    a, b = pair
    for va in PAIR_VALUES.get(a, ['1']):
        for vb in PAIR_VALUES.get(b, (VALUES if tier != 'quick' else ['', '0', '-1', 'abc', '9' * 30, '1.5', '\u00b2', 'PT5S', '2147483647', '{"a":1}', '{', '{0}']) + WIDTHS):
            url = with_query(path, {a: va, b: vb})
            r = w.get(url)
            acc.state((path, a, va, b, vb[:16]))
            judge(acc, kind, url, None, r, {'kind': 'hostile', 'rkind': kind, 'url': url, 'option': f'{a}+{b}'})
    return acc


HEADERS = [{'Range': 'bytes=abc'}, {'Range': 'bytes=5-1'}, {'Range': 'items=0-1'}, {'Range': 'bytes=' + '9' * 30 + '-'},
           {'Origin': 'http://evil.example'}, {'Origin': ''}, {'Cookie': 'session=garbage; csrf=x'},
           {'Authorization': 'Bearer garbage'}, {'Authorization': 'Basic !!!'}, {'Content-Type': 'application/json'},
           {'Accept': '*/*;q=abc'}, {'X-Forwarded-Proto': 'https'}, {'If-None-Match': '"x"'}]


def header_item(arg):
    routes, tier = arg
    w = W.World.shared(extras=True)
    w.begin_item()
    acc = core.Acc()
    W.set_now(NOW)
    for kind, path in routes:
        for h in HEADERS:
            for method in ('GET', 'HEAD', 'POST', 'PUT', 'DELETE', 'OPTIONS'):
                kw = {}
                if method in ('POST', 'PUT') and h.get('Content-Type') == 'application/json':
                    kw['data'] = b'{not json'
                r = w.request(method, path, headers=h, **kw)
                acc.state((path, method, tuple(h.items())))
                judge(acc, kind, f'{method} {path}', h, r,
                      {'kind': 'header', 'rkind': kind, 'method': method, 'url': path, 'headers': h, 'option': 'header'})
    return acc


def header_option_item(arg):
    """A request header together with one option: every header of the list x every registered option (its first two
    choices, or a plain value) on the manifest routes - the header changes how URLs are written (scheme, origin), the
    option what is written."""
    path, names, tier = arg
    w = W.World.shared(extras=True)
    w.begin_item()
    acc = core.Acc()
    W.set_now(NOW)
    for name in names:
        vals = [v for v in choice_variants(name) if v == v.strip() and v.lower() == v][:3] or ['1']
        for v in vals[:(2 if tier == 'quick' else 3)]:
            url = with_query(path, {name: v})
            for h in HEADERS:
                if 'Range' in h or 'Content-Type' in h:
                    continue
                r = w.get(url, headers=h)
                acc.state((url, tuple(h.items())))
                judge(acc, 'manifest', url, h, r, {'kind': 'hostile', 'rkind': 'manifest', 'url': url, 'option': name, 'headers': h})
    return acc


def body_item(arg):
    """Type-confused JSON bodies on the JSON endpoints (anonymous and as media)."""
    tier = arg
    from mc import mgmt
    w = W.World.shared(extras=True)
    w.begin_item()
    acc = core.Acc()
    W.set_now(NOW)
    bodies = [None, {}, [], 'x', 1, {'kids': None}, {'kids': 'abc'}, {'kids': [1, 2]}, {'kids': [None]}, {'kids': ['AAAA'], 'type': 5},
              {'kids': ['AAAA']}, {'username': None, 'password': None}, {'username': 'admin'}, {'username': ['a'], 'password': {}},
              {'username': 'x' * 5000, 'password': 'y'}]
    for path in ('/clearkey', '/api/login'):
        for b in bodies:
            r = w.request('POST', path, json_body=b) if b is not None else w.request('POST', path, data=b'', content_type='application/json')
            acc.state((path, repr(b)[:40]))
            judge(acc, 'json', f'POST {path} {repr(b)[:60]}', None, r,
                  {'kind': 'body', 'url': path, 'body': b, 'option': 'body'})
    return acc


def census_item(arg):
    """Every media file of every stream of the world, asked for the ordinary way: init, every stored segment by number
    and by time, the one past the end, static and live, with and without DRM. Nothing hostile in the request - what
    varies is the kind of stored media (track ids, IV sizes, sub-samples, key sets, missing tfdt, default durations ...)."""
    stream = arg
    w = W.World.shared(extras=True)
    w.begin_item()
    acc = core.Acc()
    W.set_now(NOW)
    with w.appctx():
        st = w.models.Stream.get(directory=stream)
        files = []
        if st is not None:
            for mf in st.media_files:
                rep = mf.representation
                files.append((mf.name, mf.content_type, rep.num_media_segments if rep else 0, bool(rep and rep.encrypted),
                              rep.segments[1].duration if rep and len(rep.segments) > 1 else 0))
        w.models.db.session.remove()
    ext = {'video': 'm4v', 'audio': 'm4a', 'text': 'mp4'}
    for name, ctype, nseg, enc, dur in files:
        e = ext.get(ctype, 'mp4')
        for drm in ((None, 'all', 'playready', 'clearkey-moov') if enc else (None, 'all')):
            q = crawl.make_query({'drm': drm} if drm else {})
            urls = [f'/dash/{mode}/{stream}/{name}/init.{e}{q}' for mode in ('vod', 'live')]
            urls += [f'/dash/vod/{stream}/{name}/{n}.{e}{q}' for n in range(1, nseg + 2)]
            urls += [f'/dash/vod/{stream}/{name}/time/{k * dur}.{e}{q}' for k in range(0, min(nseg, 3))]
            urls += [f'/dash/odvod/{stream}/{name}.{e}{q}']
            lq = crawl.make_query(dict({'drm': drm} if drm else {}, start='2024-03-01T11:00:00Z', depth='60'))
            urls += [f'/dash/live/{stream}/{name}/{n}.{e}{lq}' for n in (880, 890, 899)]
            for url in urls:
                hd = {'Range': 'bytes=0-99'} if '/odvod/' in url else None
                r = w.get(url, headers=hd)
                acc.state((url,))
                judge(acc, 'media', url, hd, r, {'kind': 'hostile', 'rkind': 'media', 'url': url, 'option': 'census', 'headers': hd})
    return acc


def mgmt_item(arg):
    """Well-formed but conflicting management requests: the operation alphabet of C17, every ordered pair, issued by
    the media user; the answer of the request itself must not be a 5xx."""
    first, tier = arg
    from props import c17
    env = c17.Env.get()
    acc = core.Acc()
    table = {n: fn for n, _, fn in c17.ACTIONS}

    def issue(name):
        W.set_now(c17.NOW)
        I = env.lookup()
        T = env.tokens()
        r = table[name](env, I, T)
        acc.count('transitions')
        acc.count('evaluations')
        return r

    def verdict(seq, r):
        if r is None:
            return
        if r.unbounded:
            acc.violation('C16|mgmt|UNBOUNDED', f'management history {seq}: no answer within the watchdog',
                          {'kind': 'mgmt', 'seq': seq})
        elif r.status >= 500 or r.exc is not None:
            sig = W.crash_signature(r.exc) if r.exc else f'status-{r.status}-without-exception'
            acc.violation(f'C16|mgmt|{sig}', f'management history {seq}: the last request answered {r.status} {sig}',
                          {'kind': 'mgmt', 'seq': seq})
        else:
            acc.outcome(('mgmt', r.status))
            if 400 <= r.status < 500:
                acc.nontriv(('mgmt', tuple(seq)))
    env.w.restore(env.snap0)
    env.rc.cookies_restore(env.cookies)
    verdict([first], issue(first))
    snap, cookies = env.w.snapshot(), env.rc.cookies_snapshot()
    for second in table:
        env.w.restore(snap)
        env.rc.cookies_restore(cookies)
        acc.state(('mgmt', first, second))
        verdict([first, second], issue(second))
    env.w.restore(env.snap0)
    return acc


def tod_item(arg):
    """Errors addressed by a time of day: the manifest translates the time into the media URLs; the synthetic error must
    be produced for the segment whose interval contains that time, and for no other listed segment."""
    stream, addressing, ks, tier = arg[:4]
    age = arg[4] if len(arg) > 4 else 0           # seconds the stream has been running before the window of interest
    early = arg[5] if len(arg) > 5 else False     # the manifest is fetched before the addressed time and not refreshed
    from fractions import Fraction
    from mc import mpd
    w = W.World.shared(extras=True)
    w.begin_item()
    acc = core.Acc()
    ast = datetime.datetime(2024, 3, 1, 12, 0, 0, tzinfo=datetime.timezone.utc) - datetime.timedelta(seconds=age)
    now = ast + datetime.timedelta(seconds=age + 47.5)
    for k0 in ks:
        k = k0 + age
        tod = (ast + datetime.timedelta(seconds=k)).strftime('%H:%M:%SZ')
        q = {'start': crawl.iso(ast), 'depth': '40', 'verr': f'503={tod}', 'aerr': f'404={tod}'}
        if addressing == 'time':
            q['timeline'] = '1'
        if early:
            q['mup'] = '-1'
        url = f'/dash/live/{stream}/hand_made.mpd' + crawl.make_query(q)
        W.set_now(ast + datetime.timedelta(seconds=age + 20) if early else now)
        r = w.get(url)
        W.set_now(now)
        acc.count('evaluations')
        acc.count('transitions')
        rec = {'kind': 'tod', 'stream': stream, 'addressing': addressing, 'ks': [k0], 'age': age, 'early': early}
        if r.status != 200:
            acc.violation(f'C16|tod|{addressing}|manifest-status-{r.status}', f'{url}: status {r.status}', rec)
            continue
        doc = mpd.Mpd(r.body, 'http://localhost' + url.split('?')[0])
        for rep in doc.all_reps():
            ctype = rep.content_type
            if ctype not in ('video', 'audio'):
                continue
            code = 503 if ctype == 'video' else 404
            segs = doc.segments(rep, now)
            want = [sg for sg in segs if Fraction(sg['t'], rep.timescale) <= k < Fraction(sg['t'] + sg['d'], rep.timescale)]
            hits = []
            for sg in segs:
                rr = w.get(mpd.split_url(sg['url']))
                acc.count('transitions')
                if rr.status == code and (rr.body or b'').startswith(b'Synthetic'):
                    hits.append(sg)
                elif rr.status >= 500:
                    acc.violation(f'C16|tod|{addressing}|{ctype}|5xx', f'{mpd.split_url(sg["url"])}: {rr.status}', rec)
            acc.state((stream, addressing, k, rep.id))
            acc.nontriv((stream, addressing, k, rep.id))

            def span(sg):
                return f'[{float(Fraction(sg["t"], rep.timescale)):.2f},{float(Fraction(sg["t"] + sg["d"], rep.timescale)):.2f})'
            if [sg['t'] for sg in hits] != [sg['t'] for sg in want]:
                cls = 'none' if not hits else ('several' if len(hits) > 1 else
                                               ('earlier' if want and hits[0]['t'] < want[0]['t'] else 'later'))
                acc.violation(f'C16|tod|{addressing}{"|manifest-fetched-earlier" if early else ""}|{ctype}|error-on-{cls}-segment',
                              f'{url} ({rep.id}): the error addressed at {tod} (+{k} s) is produced for '
                              f'{[span(sg) for sg in hits]}, the segment containing that time is {[span(sg) for sg in want]}', rec)
    return acc


def _dispatch(item):
    kind, arg = item
    if kind == 'tod':
        return tod_item(arg)
    if kind == 'mgmt':
        return mgmt_item(arg)
    if kind == 'hostile':
        return hostile_item(arg)
    if kind == 'pair':
        return pair_item(arg)
    if kind == 'header':
        return header_item(arg)
    if kind == 'body':
        return body_item(arg)
    if kind == 'census':
        return census_item(arg)
    if kind == 'header-option':
        return header_option_item(arg)
    if kind == 'bare':
        return bare_item(arg)
    if kind.startswith('mp4'):
        from props import c16_mp4
        return c16_mp4.dispatch(kind, arg)
    from props import c16_inject
    return c16_inject.dispatch(kind, arg)


def run(ctx):
    routes = route_instances()
    names = option_names()
    items = []
    for kind, path in routes:
        nm = names
        if ctx.quick and path not in PRIMARY:
            nm = [n for n in nm if n in ('drm', 'start', 'depth', 'events', 'time', 'mup', 'verr', 'aerr', 'merr', 'vcorrupt',
                                         'leeway', 'drift', 'failures', 'patch', 'timeline', 'playready__version', 'acodec',
                                         'zzunknown', 'ajax', 'mode', 'ping__interval', 'update', 'frames', 'abr')]
        for ch in core.chunks(nm, 12):
            items.append(('hostile', (kind, path, ch, ctx.tier)))
    pair_routes = [r for r in routes if r[1] in ('/dash/live/bbb/hand_made.mpd', '/dash/vod/bbb/hand_made.mpd',
                                                  LIVE_SEG, '/dash/vod/bbb/bbb_v7/3.m4v', VOD_ENC_SEG,
                                                  '/mps/live/testmps/hand_made.mpd', '/patch/bbb/hand_made/1709294400')]
    w0 = W.World.shared(extras=True)
    W.set_now(NOW)
    for path in MUST_SERVE:
        r0 = w0.get(path)
        if r0.status != 200:
            raise core.HarnessError(f'C16: the base request {path} answers {r0.status}: the option code behind it would not be '
                                    f'reached')
    for kind, path in pair_routes:
        for pair in all_pairs():
            items.append(('pair', (kind, path, pair, ctx.tier)))
    for ch in core.chunks(routes if not ctx.quick else routes[::3], 6):
        items.append(('header', (ch, ctx.tier)))
    items.append(('body', ctx.tier))
    for ch in core.chunks(boundary_routes(), 40):
        items.append(('bare', (ch, ctx.tier)))
    for path in ('/dash/live/bbb/hand_made.mpd', '/dash/vod/bbb/hand_made.mpd', '/mps/live/testmps/hand_made.mpd',
                 '/dash/live/bbb/manifest_e.mpd'):
        for ch in core.chunks(names, 8):
            items.append(('header-option', (path, ch, ctx.tier)))
    with w0.appctx():
        stream_dirs = sorted(s_.directory for s_ in w0.models.Stream.all())
        w0.models.db.session.remove()
    for nm_ in stream_dirs:
        items.append(('census', nm_))
    for stream in ('bbb', 'tears'):
        for addressing in ('number', 'time'):
            ks = list(range(8, 47)) if not ctx.quick else list(range(8, 47, 3)) + [9, 12, 16]
            for ch in core.chunks(sorted(set(ks)), 5):
                items.append(('tod', (stream, addressing, ch, ctx.tier)))
            # an old stream: the audio and video segment grids have drifted apart by several segments
            # (6 h and 23 h 30 min; the time of day must stay within the day of availabilityStartTime)
            if addressing == 'number':
                # the manifest is fetched 20 s into the stream, the error lies later, the segments are fetched at 47.5 s
                for ch in core.chunks([24, 27, 28, 33, 36, 39.5] if ctx.quick else list(range(22, 44)), 5):
                    items.append(('tod', (stream, addressing, ch, ctx.tier, 0, True)))
            for age in ((6 * 3600,) if ctx.quick else (6 * 3600, 11 * 3600 + 1800)):
                for ch in core.chunks(sorted(set(ks))[::2] if ctx.quick else sorted(set(ks)), 5):
                    items.append(('tod', (stream, addressing, ch, ctx.tier, age)))
    from props import c17
    for n, _, _ in c17.ACTIONS:
        items.append(('mgmt', (n, ctx.tier)))
    extra = {}
    from props import c16_mp4, c16_inject
    for mod in (c16_mp4, c16_inject):
        it, ex = mod.plan(ctx)
        items += it
        extra.update(ex)
    ctx.merge_all(ctx.pmap(_dispatch, items))
    ctx.extra.update(route_instances=len(routes), option_names=len(names), hostile_values=len(VALUES),
                     option_pairs=len(all_pairs()), **extra)
    ctx.extra['levels_completed'] = ('hostile: deviation level 1 over every option name x value on every route instance'
                                     + (' (reduced option set on secondary routes)' if ctx.quick else '') +
                                     f', level 2 on {len(all_pairs())} option pairs x 7 routes; ' + extra.get('mp4_levels', '') + '; ' +
                                     extra.get('inject_levels', ''))


def replay(record):
    k = record.get('kind')
    w = W.World.shared(extras=True)
    acc = core.Acc()
    W.set_now(NOW)
    if k == 'hostile':
        r = w.get(record['url'], headers=record.get('headers'))
        judge(acc, record['rkind'], record['url'], record.get('headers'), r, record)
    elif k == 'header':
        r = w.request(record['method'], record['url'], headers=record['headers'])
        judge(acc, record['rkind'], f"{record['method']} {record['url']}", record['headers'], r, record)
    elif k == 'body':
        r = w.request('POST', record['url'], json_body=record['body'])
        judge(acc, 'json', f"POST {record['url']} {repr(record['body'])[:60]}", None, r, record)
    elif k == 'tod':
        a = tod_item((record['stream'], record['addressing'], record['ks'], 'quick', record.get('age', 0), record.get('early', False)))
        return [(s_, v[0]['what']) for s_, v in a.viol.items()]
    elif k == 'mgmt':
        from props import c17
        env = c17.Env.get()
        table = {n: fn for n, _, fn in c17.ACTIONS}
        env.w.restore(env.snap0)
        env.rc.cookies_restore(env.cookies)
        out = []
        for i, name in enumerate(record['seq']):
            W.set_now(c17.NOW)
            r = table[name](env, env.lookup(), env.tokens())
            if i == len(record['seq']) - 1 and r is not None and (r.status >= 500 or r.exc is not None):
                sig = W.crash_signature(r.exc) if r.exc else f'status-{r.status}-without-exception'
                out.append((f'C16|mgmt|{sig}', f'{record["seq"]}: {r.status}'))
        env.w.restore(env.snap0)
        return out
    elif k and k.startswith('mp4'):
        from props import c16_mp4
        return c16_mp4.replay(record)
    else:
        from props import c16_inject
        return c16_inject.replay(record)
    return [(s, v[0]['what']) for s, v in acc.viol.items()]
